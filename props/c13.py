"""C13 -- typed fields are serialized exactly once; serializer failures are
contained.

SEQ world through the default Logger (the production path).  Type
definitions with counting, non-idempotent serializers (v+1, [v], str(v)+"!"),
serializer failures on a drawn subset of calls, omitted declared fields,
undeclared extra fields -- for start / success / failure / stand-alone
messages and for a dict handed straight to Logger().write().
"""

from esim import seams
from esim.driver import Violation, AppError
from esim.run import RunCtx, Tap
from esim.sched import Sched, SimAbort
from . import base

ID = "C13"
QUICK_RUNS = 20000
THOROUGH_RUNS = 800000
LEVEL = "exploration"
RULE = ("one run = 1-3 message types and 1-3 action types with 0-4 declared fields each (serializers v+1 / [v] / "
        "str(v)+'!', each counting its calls, each failing on a drawn subset of calls), then 3-25 operations "
        "(typed message, typed action with nested body and ok/raise exit, Logger().write(dict, serializer|None)) "
        "with drawn omitted declared fields and undeclared extras; after every call: caller-held dicts/lists "
        "unchanged (structure and identity), delivered message = f(v) once per declared field and the very same "
        "objects for undeclared ones, or -- on failure -- message not delivered, exactly one eliot:traceback and one "
        "eliot:serialization_failure naming it, placed in the then-current action. distinct = distinct (op shape, "
        "fault positions); non-trivial = >= 1 typed message with a declared field delivered or contained.")
REAL = ["eliot/_output.py (Logger.write, Destinations)", "eliot/_validation.py", "eliot/_action.py",
        "eliot/_traceback.py", "eliot/_message.py"]
STUBS = ["destinations -> tap (shallow copy, so object identity is observable)", "field serializers -> counting / "
         "failing callables", "time.time, uuid4"]
ASSUMPTIONS = ["where 'the current context' cannot be observed (nothing of the current action was delivered) the "
               "placement sub-check is counted as unverifiable, not as a pass",
               "with-blocks only: the end message is written after the context was reset, so its reports belong to the parent"]

SER = {
    "inc": lambda v: v + 1,
    "wrap": lambda v: [v],
    "bang": lambda v: str(v) + "!",
}
KEYS = ["k0", "k1", "k2", "k3"]


class SerFail(Exception):
    pass


class CallerTrouble(Exception):
    """What the caller is handling when it makes some of its logging calls."""


class SerFailRuntime(RuntimeError):
    pass


class SerFailLookup(KeyError):
    pass


class SerFailType(TypeError):
    pass


class SerFailValue(ValueError):
    pass


class SerFailStop(StopIteration):
    pass


# (StopIteration: what a serializer drawing from an exhausted iterator lets escape; an implementation that runs
# the serializers inside a lazy map/zip would take it for the end of the iteration)
SER_EXC = [SerFail, SerFailRuntime, SerFailLookup, SerFailType, SerFailValue, RuntimeError, StopIteration, SerFailStop]


def prepare():
    base.prepare_common()
    base.monitoring()


def draw_types(st):
    types = []
    for i in range(1 + st.choose(3, "n-mtypes")):
        fields = [[KEYS[j], ["inc", "wrap", "bang"][st.choose(3, "ser")]] for j in range(st.choose(5, "n-fields"))]
        types.append({"kind": "message", "name": "t:m%d" % i, "fields": fields})
    for i in range(1 + st.choose(3, "n-atypes")):
        sf = [[KEYS[j], ["inc", "wrap", "bang"][st.choose(3, "ser")]] for j in range(st.choose(4, "n-start"))]
        uf = [[KEYS[j], ["inc", "wrap", "bang"][st.choose(3, "ser")]] for j in range(st.choose(4, "n-succ"))]
        types.append({"kind": "action", "name": "t:a%d" % i, "start": sf, "succ": uf})
    return types


def gen_val(st, ser):
    if ser == "inc":
        # None: v + 1 raises by itself (a serializer failing on its input, not an injected fault)
        return [0, 1, -1, 41, 2 ** 40, None][st.choose(6, "int")]
    k = st.choose(5, "val")
    return [7, "s", [1, 2], {"d": 1}, None][k]


def gen_fields(st, declared, p_omit):
    f = {}
    omitted = []
    for key, ser in declared:
        if p_omit and st.chance(p_omit, "omit?"):
            omitted.append(key)
            continue
        f[key] = gen_val(st, ser)
    for j in range(st.choose(3, "n-extra")):
        f["x%d" % j] = [[1, 2], {"a": [3]}, "txt", 5][st.choose(4, "extra")]
    return f, omitted


def gen_ops(st, cfg, types, depth=0, budget=None):
    ops = []
    mts = [t for t in types if t["kind"] == "message"]
    ats = [t for t in types if t["kind"] == "action"]
    while budget[0] > 0 and st.chance(0.8, "more"):
        budget[0] -= 1
        k = st.weighted([5, 3 if depth < 3 else 0, 2], "op")
        budget[1] += 1
        nid = budget[1]
        if k == 0:
            t = mts[st.choose(len(mts), "mt")]
            f, om = gen_fields(st, t["fields"], cfg["p_omit"])
            ops.append({"op": "tmsg", "nid": nid, "type": t["name"], "fields": f, "omitted": om})
        elif k == 1:
            t = ats[st.choose(len(ats), "at")]
            f, om = gen_fields(st, t["start"], cfg["p_omit"])
            sf, som = gen_fields(st, t["succ"], cfg["p_omit"])
            body = gen_ops(st, cfg, types, depth + 1, budget)
            ops.append({"op": "tact", "nid": nid, "type": t["name"], "start": f, "succ": sf, "body": body,
                        "exit": "raise" if st.choose(3, "exit") == 2 else "ok",
                        "task": st.choose(4, "as_task") == 3})
        else:
            t = mts[st.choose(len(mts), "mt")]
            f, om = gen_fields(st, t["fields"], cfg["p_omit"])
            ops.append({"op": "write", "nid": nid, "type": t["name"] if st.choose(2, "with-ser") else None,
                        "fields": f, "omitted": om})
    return ops


def snap(o, depth=0):
    """Structure + identity snapshot of caller-held data."""
    if isinstance(o, dict):
        return ("d", id(o), tuple((k, snap(v, depth + 1)) for k, v in o.items()))
    if isinstance(o, list):
        return ("l", id(o), tuple(snap(v, depth + 1) for v in o))
    return ("v", id(o), repr(o))


class Run(object):
    def __init__(self, rc, types, cfg):
        self.rc = rc
        self.e = rc.eliot
        self.cfg = cfg
        self.fault = rc.dec.stream("fault")
        self.calls = []          # (type name, msgkind, key) per serializer call in the current API call
        self.failed = []         # same, for calls that raised
        self.types = {}
        self.decl = {}
        e = self.e
        for t in types:
            if t["kind"] == "message":
                self.decl[(t["name"], "msg")] = t["fields"]
                self.types[t["name"]] = e.MessageType(
                    t["name"], [e.Field(k, self.mk(t["name"], "msg", k, s), "") for k, s in t["fields"]], "")
            else:
                self.decl[(t["name"], "start")] = t["start"]
                self.decl[(t["name"], "succ")] = t["succ"]
                self.types[t["name"]] = e.ActionType(
                    t["name"], [e.Field(k, self.mk(t["name"], "start", k, s), "") for k, s in t["start"]],
                    [e.Field(k, self.mk(t["name"], "succ", k, s), "") for k, s in t["succ"]], "")
        self.stack = []          # model context: dicts {nid, prefix(uuid, level) or None}
        self.tap = rc.tap
        self.unverifiable = 0
        self.contained = 0
        self.delivered_typed = 0

    def mk(self, tname, kind, key, ser):
        if not hasattr(self, "stored"):
            self.stored = {}
        fn = SER[ser]
        p = self.cfg["p_ser_raise"]

        def serializer(v):
            self.calls.append((tname, kind, key))
            sc = self.rc.sched
            if sc is not None and sc.p_switch:
                sc.yield_point("in-serializer")      # another thread may log the same type right now
            if p and self.fault.chance(p, "ser_raise"):
                self.failed.append((tname, kind, key))
                self.rc.count_fault("ser_raise")
                ex_ = SER_EXC[self.fault.choose(len(SER_EXC), "ser-exc-class")]("serializer %s.%s failed" % (tname, key))
                if self.fault.choose(3, "stored-exception") == 2:
                    # a serializer that re-raises the very exception object it raised before (the stored error
                    # of a failed future, a cached lookup failure): every failure gets its own report all the same
                    ex_ = self.stored.setdefault((tname, kind, key), ex_)
                    self.rc.probe("serializer_reraised_a_stored_exception_object")
                raise ex_
            try:
                return fn(v)
            except Exception:
                self.failed.append((tname, kind, key))
                self.rc.count_fault("ser_raise_natural")
                raise
        return serializer

    # -- one emitting API call with its checks ---------------------------------
    def emit(self, what, nid, tname, kind, fields, omitted, call, held=()):
        """Run ``call`` (which emits the message described) and check it."""
        rc = self.rc
        before = len(self.tap.records)
        snaps = [snap(h) for h in held]
        del self.calls[:]
        del self.failed[:]
        from esim.sched import current_actor
        current_actor().call_lines = 0
        cur = self.stack[-1] if self.stack else None
        # some logging calls are made from inside an except block of the caller (error-handling code that
        # logs): the exception being handled there has nothing to do with the message
        in_handler = self.cfg.get("p_handler", 0) and self.fault.chance(self.cfg["p_handler"], "in-handler")
        try:
            if in_handler:
                rc.probe("logged_while_caller_handles_an_exception")
                try:
                    raise CallerTrouble("the caller's own problem, nid=%s" % nid)
                except CallerTrouble:
                    result = call()
            else:
                result = call()
        except (SimAbort, Violation):
            raise
        except AppError:
            raise
        except BaseException as ex:  # noqa
            raise Violation(("raised", {"what": what, "exc": type(ex).__name__}),
                            "%s nid=%s raised %s: %s" % (what, nid, type(ex).__name__, str(ex)[:200]))
        for h, s0 in zip(held, snaps):
            if snap(h) != s0:
                raise Violation(("caller_data_modified", {"what": what}),
                                "%s nid=%s: a dict/list supplied by the caller was modified: %r" % (what, nid, h))
        new = self.tap.records[before:]
        declared = self.decl.get((tname, kind), []) if tname else []
        dkeys = [k for k, _s in declared]
        per_key = {}
        for c in self.calls:
            if c[0] == tname and c[1] == kind:
                per_key[c[2]] = per_key.get(c[2], 0) + 1
        for k, n in per_key.items():
            if n > 1:
                raise Violation(("serialized_twice", {"what": what}),
                                "%s nid=%s: serializer of %r ran %d times for one message" % (what, nid, k, n))
        natural = False
        for k, sname in declared:
            if k in fields:
                try:
                    SER[sname](fields[k])
                except Exception:  # noqa
                    natural = True      # the serializer itself cannot handle this value
        should_fail = bool(tname) and (bool(self.failed) or natural or any(k in omitted for k in dkeys))
        mine = [r for r in new if self.is_mine(r.msg, nid, what)]
        if not should_fail:
            if len(mine) != 1:
                raise Violation(("delivery", {"what": what}), "%s nid=%s delivered %d times (%d new records)" % (
                    what, nid, len(mine), len(new)))
            if len(new) != 1:
                raise Violation(("extra_messages", {"what": what}), "%s nid=%s produced %d messages: %s" % (
                    what, nid, len(new), [r.msg.get("message_type") or r.msg.get("action_type") for r in new]))
            m = mine[0].msg
            for k, s in declared:
                want = SER[s](fields[k])
                if fields[k] is None:
                    self.rc.probe("declared_field_none")
                if per_key.get(k, 0) != 1:
                    raise Violation(("not_serialized_once", {"what": what}),
                                    "%s nid=%s: serializer of %r ran %d times" % (what, nid, k, per_key.get(k, 0)))
                if m.get(k) != want or type(m.get(k)) is not type(want):
                    raise Violation(("wrong_serialization", {"what": what}),
                                    "%s nid=%s: field %r delivered as %r, serializer(logged) = %r" % (
                                        what, nid, k, m.get(k), want))
            for k, v in fields.items():
                if k not in dkeys:
                    if k not in m or m[k] is not v:
                        raise Violation(("undeclared_touched", {"what": what}),
                                        "%s nid=%s: undeclared field %r delivered as %r (logged %r; same object: %s)" % (
                                            what, nid, k, m.get(k), v, m.get(k) is v))
            if tname and dkeys:
                self.delivered_typed += 1
            return result, mine[0]
        # --- failing case
        if mine:
            raise Violation(("delivered_despite_failure", {"what": what}),
                            "%s nid=%s was delivered although its serialization failed" % (what, nid))
        kinds = [r.msg.get("message_type") for r in new]
        if sorted(kinds, key=str) != ["eliot:serialization_failure", "eliot:traceback"]:
            raise Violation(("failure_reports", {"what": what}),
                            "%s nid=%s failed to serialize; reports emitted: %s" % (what, nid, kinds))
        tb = [r.msg for r in new if r.msg.get("message_type") == "eliot:traceback"][0]
        sf = [r.msg for r in new if r.msg.get("message_type") == "eliot:serialization_failure"][0]
        text = sf.get("message")
        if not isinstance(text, str) or ("'nid'\": '%d'" % nid) not in text:
            if what != "end" or not isinstance(text, str):
                raise Violation(("failure_reports", {"what": what}),
                                "serialization_failure does not describe message nid=%s: %r" % (nid, text))
        if not isinstance(tb.get("traceback"), str) or not isinstance(tb.get("reason"), str):
            raise Violation(("failure_reports", {"what": what}), "traceback message malformed: %r" % (tb,))
        # ... "describing it": the traceback is about what went wrong with THIS message
        if "the caller's own problem" in tb["reason"] or "CallerTrouble" in str(tb.get("exception")):
            raise Violation(("failure_reports", {"what": "describes_other_exception"}),
                            "%s nid=%s failed to serialize; the eliot:traceback logged for it describes %s: %r" % (
                                what, nid, tb.get("exception"), tb["reason"][:120]))
        if self.failed and not natural and not any(k in omitted for k in dkeys):
            if not any(("serializer %s.%s failed" % (t_, k_)) in tb["reason"] for (t_, _kd, k_) in self.failed):
                raise Violation(("failure_reports", {"what": "describes_other_exception"}),
                                "%s nid=%s: serializer(s) %s failed, the eliot:traceback says %r" % (
                                    what, nid, [x[2] for x in self.failed], tb["reason"][:160]))
        # placement: in the context current when the message was written.  For an end message written by
        # __exit__ that is the enclosing context or the ending action itself: which of the two is current
        # while a block is being left is not stated anywhere (C04 speaks of inside and of afterwards).
        ctxs = [cur]
        if what == "end":
            ctxs = [self.stack[-2] if len(self.stack) >= 2 else None, self.stack[-1] if self.stack else None]
        self.contained += 1
        problem = None
        for ctx in ctxs:
            problem = self._placement_problem(ctx, tb, sf, what, nid)
            if problem is None:
                break
        if problem is not None:
            raise Violation(("report_placement", {"what": what}), problem)
        return result, None

    def _placement_problem(self, ctx, tb, sf, what, nid):
        if ctx is None:
            for r in (tb, sf):
                if r["task_level"] != [1]:
                    return "no current action, but report logged at %s" % r["task_level"]
            if tb["task_uuid"] == sf["task_uuid"]:
                return "two context-less reports share a task_uuid"
        elif ctx.get("prefix") is None:
            self.unverifiable += 1
        else:
            u, pre = ctx["prefix"]
            for r in (tb, sf):
                if r["task_uuid"] != u or r["task_level"][:-1] != pre:
                    return "%s nid=%s failed inside action %s %s, report logged at %s %s" % (
                        what, nid, u, pre, r["task_uuid"], r["task_level"])
            if sf["task_level"] == tb["task_level"]:
                return "both reports at the same position"
        return None

    def is_mine(self, m, nid, what):
        if what == "end":
            # sequential: during one __exit__ call the only end message is this action's
            return m.get("action_status") in ("succeeded", "failed")
        if what == "start":
            return m.get("nid") == nid and m.get("action_status") == "started"
        return m.get("nid") == nid and "action_status" not in m

    # -- ops -------------------------------------------------------------------
    def run_ops(self, ops):
        e = self.e
        for op in ops:
            k = op["op"]
            nid = op["nid"]
            if k == "tmsg":
                t = self.types[op["type"]]
                f = dict(op["fields"])
                f["nid"] = nid
                held = [v for v in f.values() if isinstance(v, (list, dict))]
                self.emit("msg", nid, op["type"], "msg", f, op["omitted"], lambda: t.log(**f), held)
            elif k == "write":
                ser = self.types[op["type"]]._serializer if op["type"] else None
                d = dict(op["fields"])
                d.update({"nid": nid, "task_uuid": "direct", "task_level": [nid], "timestamp": 1.0})
                if op["type"]:
                    d["message_type"] = op["type"]
                else:
                    d["message_type"] = "untyped"
                held = [d] + [v for v in d.values() if isinstance(v, (list, dict))]
                logger = e.Logger()
                self.emit("write", nid, op["type"], "msg", d, op["omitted"], lambda: logger.write(d, ser), held)
            elif k == "tact":
                self.run_action(op)

    def run_action(self, op):
        e = self.e
        t = self.types[op["type"]]
        nid = op["nid"]
        f = dict(op["start"])
        f["nid"] = nid
        held = [v for v in f.values() if isinstance(v, (list, dict))]
        starter = t.as_task if op["task"] else t
        d_start = self.decl[(op["type"], "start")]
        om = [k for k, _s in d_start if k not in f]
        parent = self.stack[-1] if self.stack else None
        if op["task"]:
            # a new tree whatever the context; reports about its start go to the current action all the same
            pass
        action, rec = self.emit("start", nid, op["type"], "start", f, om, lambda: starter(**f), held)
        node = {"nid": nid, "prefix": None}
        if rec is not None:
            node["prefix"] = (rec.msg["task_uuid"], rec.msg["task_level"][:-1])
        exc = None
        action.__enter__()
        self.stack.append(node)
        try:
            self.run_ops(op["body"])
            if node["prefix"] is None:
                # learn the action's prefix from anything delivered inside it
                pass
            sf = dict(op["succ"])
            action.add_success_fields(**sf)
            if op["exit"] == "raise":
                raise AppError("boom nid=%d" % nid)
        except AppError as ex:
            exc = ex
        d_succ = self.decl[(op["type"], "succ")]
        sf = dict(op["succ"])
        som = [k for k, _s in d_succ if k not in sf]
        try:
            if exc is None:
                self.emit("end", nid, op["type"], "succ", sf, som,
                          lambda: action.__exit__(None, None, None),
                          [v for v in sf.values() if isinstance(v, (list, dict))])
            else:
                r, _rec = self.emit("end", nid, None, "fail", {}, [],
                                    lambda: action.__exit__(type(exc), exc, exc.__traceback__), [])
                if r:
                    raise Violation("swallowed", "__exit__ swallowed the exception")
        finally:
            self.stack.pop()


def run_threads(rc, cfg, types, dec):
    """Two or three threads log typed messages (some failing) through the shared default Logger; every
    failed message must get exactly one eliot:traceback and one eliot:serialization_failure naming it."""
    e = rc.eliot
    st = dec.stream("prog")
    s = Sched(dec.stream("sched"), p_switch=cfg["p_switch"], gran="line", max_steps=400000,
              traced=["_output.py", "_traceback.py", "_validation.py"], call_budget=8000)
    rc.sched = s
    rc.clock = seams.begin_run(rc.seed)
    rc.tap = Tap(rc, deep=False)
    plan = []
    nid = 0
    mts = [t for t in types if t["kind"] == "message"]
    for a in range(cfg["n_actors"]):
        ops = []
        for _ in range(cfg["per_actor"]):
            nid += 1
            t = mts[st.choose(len(mts), "mt")]
            f, om = gen_fields(st, t["fields"], cfg["p_omit"])
            ops.append((nid, t["name"], f, om))
        plan.append(ops)
    run = [None]
    outcome = {}
    logged = {}
    for ops in plan:
        for nid_, tname_, f_, om_ in ops:
            logged[nid_] = (tname_, f_)

    def actor(ops):
        def fn():
            r = run[0]
            for nid, tname, f, om in ops:
                f = dict(f)
                f["nid"] = nid
                n0 = len(r.failed_nids)
                r.current[_sched_name()] = nid
                try:
                    r.types[tname].log(**f)
                except SimAbort:
                    raise
                except BaseException as ex:  # noqa
                    outcome[nid] = ("raised", ex)
                    continue
                declared = [k for k, _s in r.decl[(tname, "msg")]]
                outcome[nid] = ("failed" if (nid in r.failed_nids or any(k in om for k in declared)) else "ok", None)
                s.yield_point("between")
        return fn

    def _sched_name():
        from esim.sched import current_actor
        return current_actor().name

    def main():
        e.add_destinations(rc.tap)
        r = Run(rc, types, cfg)
        r.failed_nids = set()
        r.current = {}
        orig_mk = r.failed

        class Rec(list):
            def append(self_, item):
                r.failed_nids.add(r.current.get(_sched_name()))
                list.append(self_, item)
        r.failed = Rec()
        run[0] = r
        acts = [s.spawn("T%d" % i, actor(ops)) for i, ops in enumerate(plan)]
        for a in acts:
            s.yield_point("join")
            s.join(a)

    try:
        try:
            s.run_main(main)
        except SimAbort:
            raise Violation("no_termination", "aborted: %s" % s.abort)
    finally:
        seams.end_run()
    if s.deadlock:
        raise Violation("deadlock", "%r" % (s.deadlock,))
    msgs = [r.msg for r in rc.tap.records]
    n_tb = sum(1 for m in msgs if m.get("message_type") == "eliot:traceback")
    n_failed = 0
    for nid, (what, ex) in sorted(outcome.items()):
        if what == "raised":
            raise Violation(("raised", {"what": "msg", "exc": type(ex).__name__}), "typed log nid=%s raised %r" % (nid, ex))
        delivered = sum(1 for m in msgs if m.get("nid") == nid and m.get("message_type", "").startswith("t:"))
        reports = sum(1 for m in msgs if m.get("message_type") == "eliot:serialization_failure"
                      and ("'nid'\": '%d'" % nid) in str(m.get("message")))
        if what == "ok":
            if delivered != 1 or reports:
                raise Violation(("delivery", {"what": "msg"}), "nid=%s delivered %d times, %d reports" % (nid, delivered, reports))
            m = [x for x in msgs if x.get("nid") == nid and x.get("message_type", "").startswith("t:")][0]
            tname, f = logged[nid]
            for k, sname in run[0].decl[(tname, "msg")]:
                try:
                    want = SER[sname](f[k])
                except Exception:  # noqa
                    raise Violation(("delivered_despite_failure", {"what": "msg"}),
                                    "nid=%s was delivered although the serializer of field %r cannot accept the "
                                    "logged value %r" % (nid, k, f[k]))
                if m.get(k) != want or type(m.get(k)) is not type(want):
                    raise Violation(("wrong_serialization", {"what": "msg", "concurrent": True}),
                                    "message nid=%s logged from several threads at once: field %r delivered as %r, "
                                    "serializer(logged value) = %r" % (nid, k, m.get(k), want))
        else:
            n_failed += 1
            if delivered:
                raise Violation(("delivered_despite_failure", {"what": "msg"}), "nid=%s delivered although it failed" % nid)
            if reports != 1:
                raise Violation(("failure_reports", {"what": "msg", "concurrent": True}),
                                "message nid=%s failed to serialize; %d eliot:serialization_failure message(s) name it" % (nid, reports))
    if n_tb != n_failed:
        raise Violation(("failure_reports", {"what": "traceback_count", "concurrent": True}),
                        "%d messages failed to serialize, %d eliot:traceback messages were logged" % (n_failed, n_tb))
    return {"contained_failures": n_failed, "typed_delivered": len(outcome) - n_failed}


def draw_cfg(st):
    if st.choose(5, "threads") == 4:
        return {"world": "threads", "n_actors": 2 + st.choose(2, "actors"), "per_actor": 1 + st.choose(5, "per"),
                "p_ser_raise": [0.3, 0.6][st.choose(2, "p_ser")], "p_omit": [0.0, 0.2][st.choose(2, "p_omit")],
                "p_switch": [0.1, 0.3][st.choose(2, "p_switch")], "globals": False, "n_ops": 0}
    return {
        "world": "seq",
        "p_ser_raise": [0.0, 0.1, 0.3, 0.05][st.choose(4, "p_ser")],
        "p_omit": [0.0, 0.1, 0.3][st.choose(3, "p_omit")],
        "n_ops": 3 + st.choose(23, "n_ops"),
        "globals": bool(st.choose(2, "globals")),
        "p_handler": [0.0, 0.3][st.choose(2, "p_handler")],
    }


def run_one(seed, dec):
    cfg = draw_cfg(dec.stream("cfg"))
    st = dec.stream("prog")
    types = draw_types(st)
    if cfg["world"] == "threads":
        rc = RunCtx(ID, seed, dec, cfg)
        extra = {}
        try:
            extra = run_threads(rc, cfg, types, dec)
        except Violation as v:
            rc.fail_v(v)
        prog = {"world": "threads", "actors": [[]], "types": {}}
        res = base.result(rc, prog, nontrivial=bool(rc.sched.switches), extra_stats=extra,
                          distinct_extra=(cfg["n_actors"], cfg["per_actor"]))
        res["sample"] = {"cfg": cfg, "types": types}
        return res
    ops = gen_ops(st, cfg, types, 0, [cfg["n_ops"], 0])
    rc = RunCtx(ID, seed, dec, cfg)
    s = Sched(dec.stream("sched"), max_steps=10 ** 6, call_budget=20000)
    rc.sched = s
    rc.clock = seams.begin_run(seed)
    rc.tap = Tap(rc, deep=False)
    run = [None]

    def main():
        rc.eliot.add_destinations(rc.tap)
        if cfg["globals"]:
            rc.eliot.add_global_fields(gf="G")
        run[0] = Run(rc, types, cfg)
        run[0].run_ops(ops)

    try:
        try:
            s.run_main(main)
        except Violation as v:
            rc.fail_v(v)
        except SimAbort:
            rc.fail("no_return", "a logging call did not return within %d line events (%s)" % (100000, s.abort))
    finally:
        seams.end_run()
    r = run[0]
    extra = {"contained_failures": r.contained if r else 0, "placement_unverifiable": r.unverifiable if r else 0,
             "typed_delivered": r.delivered_typed if r else 0}
    prog = {"world": "seq", "actors": [[]], "types": {}}

    def shape(os):
        return tuple((o["op"], o.get("type"), tuple(o.get("omitted", ())), shape(o["body"]) if "body" in o else None,
                      o.get("exit")) for o in os)
    res = base.result(rc, prog, nontrivial=bool(r and (r.contained or r.delivered_typed)),
                      distinct_extra=(shape(ops), tuple(sorted(rc.faults.items()))), extra_stats=extra)
    res["sample"] = {"cfg": cfg, "types": types, "ops": ops}
    return res
