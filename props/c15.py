"""C15 -- decorated generators keep their own action context and stay
transparent.

GEN world: 1-4 generators decorated with eliot_friendly_generator_function,
bodies are scripts (yield, actions spanning yields, messages, nested decorated
generators via ``yield from``, return, raise, catch-thrown-and-continue); a
scripted driver resumes them in an interleaving drawn from the decision stream
with next / send / throw / close, from changing contexts (none, a long-lived
action, a short-lived action around the single step).
"""

from esim import seams
from esim import oracles as O
from esim.driver import Violation, AppError, MAction, MMsg, Model
from esim.run import RunCtx, Tap
from esim.sched import Sched, SimAbort
from . import base

ID = "C15"
QUICK_RUNS = 12000
THOROUGH_RUNS = 500000
LEVEL = "exploration"
RULE = ("one run = 1-4 decorated generators with generated bodies (<= 12 statements, actions spanning yields, nested "
        "decorated generators) and a driver schedule of up to 40 drawn steps (which generator, next/send/throw/close, "
        "from which context); after every step: current_action() inside the body is the generator's own top (base "
        "at first resumption + entered since), the driver's is unchanged; yielded / sent / thrown objects, close() "
        "and return values cross the wrapper unchanged (identity); parsed tap forest == model forest. distinct = "
        "distinct (body shapes, driver step sequence); non-trivial = >= 2 resumptions from different contexts or "
        ">= 2 generators interleaved.")
REAL = ["eliot/_generators.py", "eliot/_action.py", "eliot/_output.py", "eliot/parse.py", "contextvars"]
STUBS = ["generator driver (Twisted inlineCallbacks / user code) -> scripted driver drawing its steps from the decision stream",
         "destinations -> tap", "time.time, uuid4"]
ASSUMPTIONS = ["a generator is created and first resumed in the same context (both readings of 'when it was started' agree)",
               "eliot.twisted.inline_callbacks itself is not executed (Twisted absent); it delegates to this wrapper",
               "the long-lived driver action ends after every generator has finished or been closed"]


def prepare():
    base.prepare_common()
    base.monitoring()


# ----------------------------------------------------------------- generation
def gen_body(st, cfg, counter, depth, allow_nested):
    stmts = []
    while counter["left"] > 0 and st.chance(0.8, "more"):
        counter["left"] -= 1
        k = st.weighted([4, 3, 3 if depth < 3 else 0, 1, 1, 2 if (allow_nested and depth < 2) else 0,
                         2 if (allow_nested and depth < 2) else 0], "stmt")
        if k == 0:
            counter["nid"] += 1
            stmts.append({"s": "yield", "v": counter["nid"], "on_throw": ["propagate", "catch"][st.choose(2, "on_throw")]})
        elif k == 1:
            counter["nid"] += 1
            stmts.append({"s": "msg", "nid": counter["nid"]})
        elif k == 2:
            counter["nid"] += 1
            nid = counter["nid"]
            stmts.append({"s": "with", "nid": nid, "body": gen_body(st, cfg, counter, depth + 1, allow_nested)})
        elif k == 3:
            counter["nid"] += 1
            stmts.append({"s": "return", "r": counter["nid"] * 1000})
            break
        elif k == 4:
            stmts.append({"s": "raise"})
            break
        elif k == 5:
            counter["gid"] += 1
            stmts.append({"s": "nested", "gid": counter["gid"],
                          "body": gen_body(st, cfg, counter, depth + 1, False)})
        else:
            # the outer generator steps an inner decorated generator by hand, a few times only, and carries
            # on with the inner one left suspended (closed when the outer generator ends)
            counter["gid"] += 1
            stmts.append({"s": "nested_partial", "gid": counter["gid"], "steps": 1 + st.choose(3, "partial-steps"),
                          "body": gen_body(st, cfg, counter, depth + 1, False)})
    return stmts


class G(object):
    """Run-time state of one decorated generator."""

    def __init__(self, gid, body):
        self.gid = gid
        self.body = body
        self.base = None          # (node, obj) or None
        self.stack = []           # own entered actions
        self.events = []          # what the body observed
        self.started = False
        self.done = False
        self.it = None


class Run(object):
    def __init__(self, rc):
        self.rc = rc
        self.e = rc.eliot
        self.model = rc.model
        self.drv = []             # driver context stack [(node, obj)]
        self.gens = {}
        self.active = []          # generators whose body is running right now (innermost last)
        self.ctx_checks = 0
        self.last_yielded = None
        from eliot._generators import eliot_friendly_generator_function
        self.deco = eliot_friendly_generator_function

    def viol(self, sig, detail=""):
        """Record the violation where it is detected (what unwinds afterwards may fail differently)."""
        v = Violation(sig, detail)
        self.rc.fail_v(v)
        return v

    # -- context helpers
    def top_of(self, g):
        if g.stack:
            return g.stack[-1]
        return g.base

    def cur_top(self):
        """Model top of whoever is executing right now."""
        if self.active:
            return self.top_of(self.active[-1])
        return self.drv[-1] if self.drv else None

    def check(self, where):
        want = self.cur_top()
        got = self.e.current_action()
        self.ctx_checks += 1
        if got is not (want[1] if want else None):
            who = "generator %d" % self.active[-1].gid if self.active else "driver"
            raise self.viol(("context_wrong", {"who": "generator" if self.active else "driver", "where": where}),
                            "%s: in %s current_action() is %r, expected the action nid=%s" % (
                                where, who, got, want[0].nid if want else None))

    def log(self, nid):
        t = self.cur_top()
        node = MMsg(nid, "g:m", {"nid": nid}, "main")
        self.model.attach(node, t[0] if t else None)
        self.e.log_message(message_type="g:m", nid=nid)

    # -- generator bodies
    def make(self, g):
        run = self

        def fn():
            g.started = True
            # first resumption: the context current right now is the generator's base
            g.base = run.cur_top()
            run.active.append(g)
            g.partials = []
            try:
                run.check("first resumption")
                res = yield from run.body(g, g.body)
            finally:
                for g2, w in g.partials:
                    if not g2.done:
                        try:
                            w.close()
                        except AppError:
                            pass
                        g2.done = True
                if g in run.active:
                    run.active.remove(g)
            if res is not None:
                return res[1]

        fn.__name__ = "gen%d" % g.gid
        return self.deco(fn)

    def body(self, g, stmts):
        e = self.e
        for st in stmts:
            k = st["s"]
            if k == "msg":
                self.check("before msg")
                self.log(st["nid"])
            elif k == "yield":
                self.check("before yield")
                self.active.remove(g)
                val = ["y", st["v"]]
                self.last_yielded = val
                try:
                    got = yield val
                except GeneratorExit:
                    self.active.append(g)
                    g.events.append(("closed", st["v"]))
                    self.check("after close")
                    raise
                except BaseException as ex:  # noqa
                    self.active.append(g)
                    g.events.append(("thrown", st["v"], ex))
                    self.check("after throw")
                    if st["on_throw"] == "catch":
                        continue
                    raise
                else:
                    self.active.append(g)
                    g.events.append(("got", st["v"], got))
                    self.check("after resume")
            elif k == "with":
                t = self.cur_top()
                node = MAction(st["nid"], "g:a", {"nid": st["nid"]}, "main")
                self.model.attach(node, t[0] if t else None)
                a = e.start_action(action_type="g:a", nid=st["nid"])
                node.obj = a
                try:
                    with a:
                        g.stack.append((node, a))
                        self.check("entered")
                        try:
                            res = yield from self.body(g, st["body"])
                        finally:
                            g.stack.pop()
                except BaseException as ex:  # noqa
                    node.outcome = "failed"
                    node.exc = ex
                    raise
                else:
                    node.outcome = "succeeded"
                self.check("left")
                if res is not None:
                    return res
            elif k == "return":
                return ("return", st["r"])
            elif k == "raise":
                raise AppError("boom from generator %d" % g.gid)
            elif k == "nested_partial":
                g2 = G(st["gid"], st["body"])
                g2.finished_by = None
                self.gens[g2.gid] = g2
                w = self.make(g2)()
                g2.it = None
                self.rc.probe("nested_generator_stepped_partially")
                for _ in range(st["steps"]):
                    try:
                        next(w)
                    except StopIteration:
                        g2.done = True
                        break
                    except AppError:
                        g2.done = True
                        break
                    # the inner generator is suspended (possibly inside an action of its own); this is
                    # the outer generator's code again, in the outer generator's own context
                    self.check("after partial inner step")
                g.partials.append((g2, w))
            elif k == "nested":
                g2 = G(st["gid"], st["body"])
                g2.finished_by = None
                self.gens[g2.gid] = g2
                w = self.make(g2)()
                self.rc.probe("nested_generator")
                # delegate: the outer generator is suspended inside `yield from`
                res = yield from self.delegate(g, g2, w)
                want = self.expected_return(g2)
                if g2.finished_by == "return" and res != want:
                    raise self.viol(("return_value", {"via": "yield_from"}),
                                    "`x = yield from inner()` gave %r, the inner generator returned %r" % (res, want))
                self.check("after nested")
        return None

    def delegate(self, outer, inner, w):
        """``yield from w`` written out (PEP 380), so that the model knows at
        every instant which body is running."""
        try:
            try:
                v = next(w)
            except StopIteration as stop:
                inner.finished_by = "return"
                return stop.value
            while True:
                self.active.remove(outer)
                try:
                    got = yield v
                except GeneratorExit:
                    self.active.append(outer)
                    w.close()
                    inner.finished_by = "close"
                    raise
                except BaseException as ex:  # noqa
                    self.active.append(outer)
                    try:
                        v = w.throw(ex)
                    except StopIteration as stop:
                        inner.finished_by = "return"
                        return stop.value
                else:
                    self.active.append(outer)
                    try:
                        v = next(w) if got is None else w.send(got)
                    except StopIteration as stop:
                        inner.finished_by = "return"
                        return stop.value
        except StopIteration:
            raise
        except BaseException:  # noqa
            if inner.finished_by is None:
                inner.finished_by = "raise"
            raise
        finally:
            inner.done = True

    def expected_return(self, g):
        def find(stmts):
            for st in stmts:
                if st["s"] == "return":
                    return st["r"]
                if st["s"] == "raise":
                    return None
                if st["s"] == "with":
                    r = find(st["body"])
                    if r is not None:
                        return r
            return None
        return find(g.body)


def draw_cfg(st):
    return {"world": "gen", "n_gens": 1 + st.choose(4, "n_gens"), "max_stmts": 3 + st.choose(10, "stmts"),
            "max_steps": 5 + st.choose(36, "steps"), "root": bool(st.choose(3, "root"))}


def run_one(seed, dec):
    cfg = draw_cfg(dec.stream("cfg"))
    st = dec.stream("prog")
    counter = {"nid": 0, "gid": cfg["n_gens"], "left": 0}
    bodies = []
    for i in range(cfg["n_gens"]):
        counter["left"] = cfg["max_stmts"]
        bodies.append(gen_body(st, cfg, counter, 0, True))
    rc = RunCtx(ID, seed, dec, cfg)
    s = Sched(dec.stream("sched"), max_steps=10 ** 6)
    rc.sched = s
    rc.clock = seams.begin_run(seed)
    rc.tap = Tap(rc)
    steps = []
    ctxs = set()
    holder = {}

    def main():
        e = rc.eliot
        e.add_destinations(rc.tap)
        run = Run(rc)
        holder["run"] = run
        drive(rc, run, cfg, bodies, counter, dec.stream("drive"), steps, ctxs)

    try:
        try:
            s.run_main(main)
        except Violation as v:
            rc.fail_v(v)
        except SimAbort:
            rc.fail("no_termination", "aborted")
        except Exception:
            if rc.violation is None:
                raise
    finally:
        # whatever is still suspended must not be finalised inside a later run
        run = holder.get("run")
        n_before = len(rc.tap.records)
        if run is not None:
            for g in list(run.gens.values()):
                if g.it is not None:
                    try:
                        g.it.close()
                    except BaseException:  # noqa
                        pass
            run.gens.clear()
        import gc
        gc.collect()
        del rc.tap.records[n_before:]
        seams.end_run()
    if rc.violation is None:
        try:
            msgs = [r.msg for r in rc.tap.records]
            O.account(msgs, rc.model, lenient=True, ends=False)
            O.check_forest(msgs, rc.model, order_free=False, lenient=True, fields=False, status=False,
                           require_complete=False)
        except Violation as v:
            rc.fail_v(v)
    prog = {"world": "gen", "actors": [[]], "types": {}}
    run = holder.get("run")

    def shape(b):
        return tuple((x["s"], x.get("on_throw"), shape(x["body"]) if "body" in x else None) for x in b)
    interleaved = len(set(x[0] for x in steps)) >= 2
    res = base.result(rc, prog, nontrivial=interleaved or len(ctxs) >= 2,
                      distinct_extra=(tuple(shape(b) for b in bodies), tuple(steps)),
                      extra_stats={"driver_steps": len(steps), "ctx_checks": run.ctx_checks if run else 0})
    res["sample"] = {"cfg": cfg, "bodies": bodies, "driver_steps": steps}
    return res


def drive(rc, run, cfg, bodies, counter, st, steps, ctxs):
    e = rc.eliot
    root = None
    if cfg["root"]:
        counter["nid"] += 1
        rnode = MAction(counter["nid"], "drv:root", {"nid": counter["nid"]}, "main")
        run.model.attach(rnode, None)
        root = e.start_action(action_type="drv:root", nid=counter["nid"])
        rnode.obj = root
    gens = []
    for i, b in enumerate(bodies):
        g = G(i, b)
        g.finished_by = None
        run.gens[i] = g
        gens.append(g)

    class InRoot(object):
        def __enter__(self_):
            self_.cm = root.context()
            self_.cm.__enter__()
            run.drv.append((rnode, root))

        def __exit__(self_, *a):
            run.drv.pop()
            return self_.cm.__exit__(*a)

    class InStep(object):
        """A short-lived driver action around one step (inside the root)."""

        def __enter__(self_):
            counter["nid"] += 1
            t = run.cur_top()
            self_.node = MAction(counter["nid"], "drv:step", {"nid": counter["nid"]}, "main")
            run.model.attach(self_.node, t[0] if t else None)
            self_.a = e.start_action(action_type="drv:step", nid=counter["nid"])
            self_.node.obj = self_.a
            self_.a.__enter__()
            run.drv.append((self_.node, self_.a))

        def __exit__(self_, typ, ex, tb):
            run.drv.pop()
            self_.node.outcome = "failed" if ex is not None else "succeeded"
            self_.node.exc = ex
            self_.a.__exit__(typ, ex, tb)
            return False

    class Nothing(object):
        def __enter__(self_):
            pass

        def __exit__(self_, *a):
            return False

    def contexts(kind):
        # 0: no context, 1: root, 2: root + step action, 3: step action alone
        if kind == 1 and root is not None:
            return [InRoot()]
        if kind == 2 and root is not None:
            return [InRoot(), InStep()]
        if kind == 3:
            return [InStep()]
        return [Nothing()]

    class DriverTrouble(Exception):
        """The driver's own, unrelated exception: it resumes generators while handling it."""

    def resume(g, how, creating, hop, handling=False):
        if handling:
            # a driver that steps its generators from inside an except block (error-handling code, a
            # finally clause while an exception propagates): that exception is none of the generator's business
            rc.probe("resumed_while_driver_handles_an_exception")
            try:
                raise DriverTrouble("the driver's own problem")
            except DriverTrouble:
                return resume(g, how, creating, hop)

        """The resumption itself; with ``hop`` it runs inside a *copy* of the driver's contextvars context
        (a driver that resumes from another Context: executor thread, another task, copy_context().run)."""
        def core():
            if creating:
                g.it = run.make(g)()
                return next(g.it)
            if how == "next":
                g.sent = None
                return next(g.it)
            if how == "send":
                counter["nid"] += 1
                # any object is a legitimate value to send, an exception instance included
                g.sent = ValueError("sent as data %d" % counter["nid"]) if counter["nid"] % 4 == 0 \
                    else ("sent", counter["nid"])
                return g.it.send(g.sent)
            if how == "throw":
                g.thrown = AppError("thrown into generator %d" % g.gid)
                return g.it.throw(g.thrown)
            out = g.it.close()
            g.done = True
            g.finished_by = "close"
            if out is not None:
                raise run.viol("close_result", "close() returned %r" % (out,))
            return out
        if hop:
            import contextvars
            rc.probe("resumed_from_copied_context")
            return contextvars.copy_context().run(core)
        return core()

    def do_step(g, how, ckind, creating=False, hop=False, handling=False):
        cms = contexts(ckind)
        ctxs.add((g.gid, ckind if (root is not None or ckind == 3) else 0))
        for cm in cms:
            cm.__enter__()
        escaped = None
        try:
            run.check("driver before step")
            try:
                out = resume(g, how, creating, hop, handling)
            finally:
                if run.active:
                    raise run.viol("harness_active", "model bookkeeping: a body is marked running in the driver")
            g.last_out = out
            if not g.done and out is not run.last_yielded:
                raise run.viol("yielded_value", "driver received %r, the body yielded %r" % (out, run.last_yielded))
        except StopIteration as stop:
            g.done = True
            g.finished_by = "return"
            want = run.expected_return(g)
            if stop.value != want:
                raise run.viol(("return_value", {"via": "StopIteration"}),
                                "generator %d returned %r, the driver's StopIteration.value is %r" % (
                                    g.gid, want, stop.value))
        except AppError as ex:
            g.done = True
            g.finished_by = "raise"
            escaped = ex
        except Violation:
            raise
        except Exception as ex:  # noqa
            if isinstance(ex, DriverTrouble):
                raise run.viol("sent_value", "the exception the driver was handling while it resumed generator %d "
                               "(%s) was raised inside the generator" % (g.gid, how))
            if ex is getattr(g, "sent", None):
                raise run.viol("sent_value", "the value sent into generator %d (%r) was raised in it instead" % (g.gid, ex))
            raise run.viol(("generator_raised", {"exc": type(ex).__name__}),
                           "resuming generator %d (%s) raised %s: %s" % (g.gid, how, type(ex).__name__, ex))
        finally:
            for cm in reversed(cms):
                cm.__exit__(None, None, None)
        run.check("driver after step")
        return escaped

    def verify_events(g, how):
        """What the body observed at its last yield must be what the driver did."""
        if not g.events:
            return
        ev = g.events[-1]
        if how == "send" and ev[0] == "got" and ev[2] is not g.sent:
            raise run.viol("sent_value", "body received %r, driver sent %r" % (ev[2], g.sent))
        if how == "next" and ev[0] == "got" and ev[2] is not None:
            raise run.viol("sent_value", "body received %r on next()" % (ev[2],))
        if how == "throw" and ev[0] == "thrown" and ev[2] is not g.thrown:
            raise run.viol("thrown_value", "body saw %r, driver threw %r" % (ev[2], g.thrown))

    def expected_yields(g):
        return None

    n_steps = 0
    # creation + first resumption, each in a drawn context
    order = list(gens)
    for g in order:
        ck = st.choose(2, "create-ctx")      # long-lived contexts only: none or the root
        apart = st.choose(3, "make-apart")
        if apart:
            # the generator object is made in one context (the root, a step action that has ended by the time
            # it runs, none) and started in another: "its own context" is the one current when it is STARTED
            cms = contexts([1, 3][apart - 1])
            for cm in cms:
                cm.__enter__()
            try:
                g.it = run.make(g)()
            finally:
                for cm in reversed(cms):
                    cm.__exit__(None, None, None)
            rc.probe("generator_made_in_one_context_started_in_another")
            ck = st.choose(2, "first-step-ctx")      # (long-lived contexts only, as for the combined step)
        esc = do_step(g, "next", ck, creating=not apart, handling=st.choose(5, "create-handling") == 4)
        steps.append((g.gid, "create", ck))
        n_steps += 1
    while n_steps < cfg["max_steps"]:
        live = [g for g in gens if not g.done]
        if not live:
            break
        g = live[st.choose(len(live), "which-gen")]
        how = ["next", "send", "throw", "close"][st.weighted([5, 3, 2, 1], "how")]
        ck = st.choose(4, "step-ctx")
        n_ev = len(g.events)
        hop = st.choose(3, "hop") == 2
        handling = st.choose(5, "handling") == 4
        esc = do_step(g, how, ck, hop=hop, handling=handling)
        steps.append((g.gid, how, ck, int(hop)))
        if how == "throw" and esc is not None and esc is not g.thrown and "boom from generator" not in str(esc):
            raise run.viol("thrown_value", "throw(): %r came back out instead of %r" % (esc, g.thrown))
        if len(g.events) > n_ev:
            # the body observed this resumption at a yield
            obs = g.events[n_ev]
            if how in ("send", "next") and obs[0] != "got":
                raise run.viol("sent_value", "driver did %s(), the body observed %r at its yield" % (how, obs[:1] + obs[2:]))
            if how == "send" and obs[0] == "got" and obs[2] is not g.sent:
                raise run.viol("sent_value", "body received %r, driver sent %r" % (obs[2], g.sent))
            if how == "next" and obs[0] == "got" and obs[2] is not None:
                raise run.viol("sent_value", "body received %r on next()" % (obs[2],))
            if how == "throw" and (obs[0] != "thrown" or obs[2] is not g.thrown):
                raise run.viol("thrown_value", "body saw %r, driver threw %r" % (obs, g.thrown))
            if how == "close" and obs[0] != "closed":
                raise run.viol("close_not_seen", "close(): body saw %r instead of GeneratorExit" % (obs,))
        n_steps += 1
    # structured end: close what is still suspended, then end the root
    for g in gens:
        if not g.done:
            do_step(g, "close", st.choose(4, "final-ctx"))
            steps.append((g.gid, "close", -1))
    if root is not None:
        rnode.outcome = "succeeded"
        root.finish()
    run.check("driver at end")
