"""C07 -- logging never raises into, or alters, the application.

The fault-injecting twin of C01.  Faults: destinations raising on drawn masks
(incl. exceptions whose str() raises), failing field serializers, omitted
declared fields, failing exception extractors (incl. ones covering their own
exception), field values that cannot be JSON-encoded or stringified, OSError
from file write/flush with partial acceptance -- hitting every message kind
(start, end, in-action, context-less, traceback, the failure reports
themselves).  Oracle: every eliot API call returns within its step budget and
does not raise; a block lets out only the very object the script raised in it;
scripted results come back identical.  Content is *not* checked here.
"""

from esim import prog as P
from esim.driver import Violation
from esim.run import RunCtx, Tap, FaultyDest, run_program
from esim.simfile import SimFile
from . import base
from .c02 import MASKS
from .c03 import EXC, EXTRACTABLE

ID = "C07"
QUICK_RUNS = 20000
THOROUGH_RUNS = 800000
LEVEL = "exploration"
RULE = ("one run = one generated program with a drawn fault mix (bad values p in {0,.2,.6}, serializer failure "
        "p in {0,.1,.5}, omitted declared fields, 0-3 raising extractors, 0-3 destinations with failure masks, "
        "a file destination with write/flush OSErrors) in a SEQ (90%) or THREADS (10%) world; a third of the runs "
        "have exactly one fault source switched on. Oracle: each API call returns within 100k line events and "
        "raises nothing; only the application's own exception objects leave blocks; results identical. "
        "distinct = distinct (program shape, fired-fault counts, schedule signature); non-trivial = >= 1 fault fired.")
REAL = base.REAL
STUBS = base.STUBS
ASSUMPTIONS = ["not injected (outside the quantifier): destinations raising non-Exception BaseExceptions, warnings "
               "turned into errors, MemoryError, Eliot's reserved field names",
               "content of what is logged under faults is checked by C08/C13, not here"]


def prepare():
    base.prepare_common()
    base.monitoring()


def draw_cfg(st):
    world = ["seq", "threads"][st.weighted([85, 15], "world")]
    cfg = {
        "world": world,
        # with failing destinations a report about the remote action's end message is logged in whatever
        # context the calling thread is left with; in a *copied* context that is the originating thread's
        # Action, used from two threads at once -- which eliot documents as unsupported -- so that
        # invocation style is not combined with destination faults
        "preserve_how": ["thread", "inline"],
        "max_ops": [8, 20, 40][st.choose(3, "size")],
        "max_depth": 2 + st.choose(4, "depth"),
        "p_more": [0.8, 0.6, 0.9][st.choose(3, "p_more")],
        "p_catch": [0.5, 0.9, 0.1][st.choose(3, "p_catch")],
        "n_actors": 1,
        "check_context": True,
        "exc": EXC,
        "finish_inside": True,
        "recursion_guard": "violation",
        "call_budget": 100000,
        "w_plain_gen": st.choose(2, "plain_gen"),
        "w_reenter": st.choose(2, "reenter"),
        "w_handler": st.choose(2, "handler"),
    }
    cfg["w_ops"] = [6, 6, 2, 2, 2, 0, 0]
    if world == "threads":
        cfg["n_actors"] = 2
        cfg["p_switch"] = [0.05, 0.2][st.choose(2, "p_switch")]
        cfg["gran"] = "line"
        cfg["traced"] = ["_output.py", "_action.py", "_errors.py", "_traceback.py"]
        cfg["spawn_kinds"] = ["thread", "remote", "preserve"]
        cfg["w_ops"] = [6, 6, 2, 2, 2, 1, 1]
        cfg["max_ops"] = min(cfg["max_ops"], 20)
        # global fields added while other threads are logging
        cfg["w_destop"] = [0, 2, 5][st.choose(3, "w_globals")]
        # extractors registered by one thread while others are failing actions (a lazily imported module
        # registering its extractors): the registry is shared
        cfg["w_xreg"] = [0, 2, 4][st.choose(3, "w_xreg")]
        cfg["extractable"] = EXTRACTABLE
    elif st.choose(4, "seq-remote") == 3:
        cfg["spawn_kinds"] = ["remote", "preserve"]
        cfg["w_ops"] = [6, 6, 2, 2, 2, 0, 1]
    single = st.choose(3, "single-fault") == 2
    kinds = ["bad", "ser", "omit", "extr", "dest", "io"]
    only = kinds[st.choose(len(kinds), "which")] if single else None

    def on(k):
        return only is None or only == k
    cfg["p_bad"] = [0.2, 0.0, 0.6][st.choose(3, "p_bad")] if on("bad") else 0
    cfg["p_ser_raise"] = [0.1, 0.0, 0.5][st.choose(3, "p_ser")] if on("ser") else 0
    cfg["p_omit"] = [0.2, 0.0][st.choose(2, "p_omit")] if on("omit") else 0
    ex = []
    if on("extr"):
        for _ in range(st.choose(4, "n-extractors")):
            cname = EXTRACTABLE[st.choose(len(EXTRACTABLE), "xcls")]
            # fields | raise | collide (returns keys named like the fields eliot itself puts on failure
            # and traceback messages: exception, reason, action_status)
            mode = ["raise", "raise", "fields", "collide", "cross", "cross"][st.choose(6, "xmode")]
            if cname not in [c for c, _m in ex]:
                ex.append([cname, mode])
    if world == "threads" and on("extr") and st.choose(2, "hot-class"):
        # all threads fail with the same few classes, covered by one slow extractor that fails
        hot = ["AppError", "ValueError", "KeyError"][st.choose(3, "hot")]
        cfg["exc"] = {"AppError": ["AppError", "AppSubError"], "ValueError": ["ValueError"],
                      "KeyError": ["KeyError"]}[hot]
        ex = [[hot, "raise"]]
    cfg["extractors"] = ex
    cfg["faulty"] = []
    if on("dest"):
        nf = st.weighted([2, 4, 2, 1], "n-faulty")
        cfg["faulty"] = [[list(MASKS[st.choose(len(MASKS), "mask")]), st.choose(6, "exc-kind"),
                          st.choose(2, "before-tap")] for _ in range(nf)]
    cfg["file"] = st.choose(3, "file")            # 0: none, 1: binary, 2: text
    cfg["p_io_error"] = ([0.1, 0.0, 0.5][st.choose(3, "p_io")] if on("io") else 0) if cfg["file"] else 0
    cfg["styles_all"] = True
    return cfg


def op_globals(interp, op, env):
    """add_global_fields between (and, in the THREADS world, during) other threads' logging calls; a new
    key every time, so the shared mapping really changes."""
    rc = interp.rc
    rc.n_globals = getattr(rc, "n_globals", 0) + 1
    fields = dict(op.get("globals") or {})
    fields["g_new_%d" % rc.n_globals] = rc.n_globals
    interp.api(("globals", rc.n_globals), rc.eliot.add_global_fields, **fields)
    rc.probe("global_fields_added")


def setup(rc, interp):
    e = rc.eliot
    rc.custom_ops["destop"] = op_globals
    rc.tap = Tap(rc)
    before, after = [], []
    rc.faulty = []
    for i, (mask, ek, bt) in enumerate(rc.cfg["faulty"]):
        d = FaultyDest(rc, "f%d" % i, tuple(mask), ek)
        rc.faulty.append(d)
        (before if bt else after).append(d)
    if rc.cfg["file"]:
        rc.file = SimFile("log", text=rc.cfg["file"] == 2, fault=rc.dec.stream("fault"),
                          p_io_error=rc.cfg["p_io_error"], stats=rc.faults)
        after.append(e.FileDestination(file=rc.file))
    e.add_destinations(*(before + [rc.tap] + after))
    rc.setup_extractors(rc.cfg.get("extractors", []))


def run_one(seed, dec):
    cfg = draw_cfg(dec.stream("cfg"))
    prog = P.generate(dec.stream("prog"), cfg)
    rc = RunCtx(ID, seed, dec, cfg)
    from esim import values as V
    del V.TRACKED[:]
    run_program(rc, prog, setup)
    if rc.violation is None:
        # objects the application handed to logging calls must not have been consumed by them
        used = [t for t in V.TRACKED if t.pulled]
        if used:
            rc.fail("application_object_altered", "a one-shot iterator passed as a field value was advanced %d "
                    "time(s) by logging" % used[0].pulled)
        if V.TRACKED:
            rc.probe("tracked_iterators_logged", len(V.TRACKED))
    if rc.violation is None:
        # whatever reached an actor's top level must be an exception object the script made
        for name, ex in rc.escaped:
            if not getattr(ex, "_scripted", False) and "boom" not in _safe(ex) and "tb nid" not in _safe(ex) \
                    and "thrown nid" not in _safe(ex) and type(ex).__name__ not in ("CancelledError",):
                rc.fail("foreign_exception", "an exception not made by the script escaped: %r" % type(ex).__name__,
                        exc=type(ex).__name__)
    bad = sum(1 for r in rc.tap.records if _has_report(r.msg))
    rc.faults["reports_seen"] = bad
    nontrivial = sum(v for k, v in rc.faults.items() if k != "reports_seen") > 0 or bad > 0 or bool(cfg["p_bad"])
    return base.result(rc, prog, nontrivial=nontrivial)


def _safe(ex):
    try:
        return str(ex.args)
    except BaseException:  # noqa
        return ""


def _has_report(m):
    try:
        return m.get("message_type") in ("eliot:destination_failure", "eliot:serialization_failure")
    except BaseException:  # noqa
        return False
