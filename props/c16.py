"""C16 -- loggers are safe to write to from many threads at once.

THREADS world, 2-4 actors pre-empted at every source line of _output.py.
(a) one shared MemoryLogger: write (untyped, typed, traceback-typed) racing
validate / serialize / flush_tracebacks / reset; interval-based oracle on the
final state and on every value returned.  (b) 2-4 actors logging through one
FileDestination(SimFile): every line is exactly one offered message.
"""

import json

from esim import seams
from esim.driver import Violation
from esim.run import RunCtx
from esim.sched import Sched, SimAbort
from esim.simfile import SimFile
from . import base

ID = "C16"
QUICK_RUNS = 10000
THOROUGH_RUNS = 400000
LEVEL = "exploration"
RULE = ("one run = 2-4 threads each executing 2-8 drawn operations on one shared MemoryLogger (write untyped / "
        "typed / traceback-typed, validate, serialize, flush_tracebacks, reset) or logging 2-6 messages each "
        "through one FileDestination, under one seeded interleaving with pre-emption at every line of _output.py "
        "and at every lock operation; distinct = distinct (op-list shape, schedule signature); non-trivial = "
        ">= 1 context switch inside an operation.")
REAL = ["eliot/_output.py (MemoryLogger, exclusively, FileDestination, Logger, Destinations)",
        "eliot/_validation.py", "eliot/_traceback.py", "real OS threads"]
STUBS = ["scheduler decision (baton)", "threading.Lock inside eliot -> SimLock (blocks logically)",
         "file object -> SimFile", "time.time, uuid4"]
ASSUMPTIONS = ["A1: one file.write call is atomic w.r.t. other writers (so a line can only be torn by issuing more "
               "than one write call per line)",
               "list.append / dict.update are atomic (GIL); pre-emption at Python line boundaries"]


def prepare():
    base.prepare_common()
    base.monitoring()


def draw_cfg(st):
    mode = ["memory", "file"][st.weighted([70, 30], "mode")]
    cfg = {"mode": mode, "world": "threads",
           "n_actors": 2 + st.choose(3, "actors"),
           "p_switch": [0.15, 0.05, 0.4][st.choose(3, "p_switch")],
           "n_ops": 2 + st.choose(7, "n_ops")}
    if mode == "memory":
        cfg["use_serialize"] = st.choose(3, "use_serialize") == 2
        cfg["second_logger"] = st.choose(3, "second_logger") == 2 and not cfg["use_serialize"]
        # op mixes: balanced, serialize-heavy, reset-heavy, reset-vs-write only, flush-vs-traceback-write
        cfg["w"] = [[6, 3, 2, 2, 0, 1, 1], [6, 4, 2, 1, 2, 1, 0], [8, 2, 1, 0, 0, 0, 3],
                    [4, 2, 2, 0, 0, 0, 5], [1, 1, 6, 0, 0, 5, 1]][st.choose(5, "mix")]
        cfg["w_poke"] = [0, 2, 4][st.choose(3, "w_poke")]
    else:
        cfg["text"] = bool(st.choose(2, "text"))
        cfg["p_io_error"] = [0.0, 0.0, 0.15][st.choose(3, "p_io")]
    return cfg


def gen_ops(st, cfg):
    """Per actor: list of ops; nids are global and unique."""
    nid = 0
    actors = []
    validated = False
    for _a in range(cfg["n_actors"]):
        ops = []
        for _i in range(cfg["n_ops"]):
            if cfg["mode"] == "file":
                nid += 1
                ops.append(["log", nid])
                continue
            # write_untyped, write_typed, write_tb, validate, serialize, flush, reset
            w = list(cfg["w"])
            if cfg["use_serialize"]:
                w[4] = max(w[4], 4)
                w[6] = max(w[6], 2)       # reset racing serialize
                w[0] = 0          # serialize() requires every message to have a serializer
                w[3] = 0          # validate() replaces messages by their serialized form; serializing a
                                  # traceback message twice fails sequentially too (not a race)
            else:
                w[4] = 0
            if validated:
                w[3] = 0          # same reason: validate at most once per run
            # a call that fails inside the logger (serialize() over a message without serializer,
            # flush_tracebacks of something that is no class): it changes nothing -- and whatever the logger
            # does to protect its lists must be undone on that path too
            w = w + [0 if cfg["use_serialize"] else cfg.get("w_poke", 0)]
            k = st.weighted(w, "op")
            if k == 7:
                ops.append(["poke", st.choose(2, "poke-kind")])
                continue
            if k in (0, 1, 2):
                nid += 1
                if k == 1 and cfg.get("second_logger") and st.choose(3, "nested") == 2:
                    # a typed write to logger A whose field serializer logs to logger B
                    nid += 1
                    ops.append(["write_nested", nid - 1, nid])
                elif k == 0 and cfg.get("second_logger") and st.choose(3, "to-b") == 2:
                    ops.append(["write_b", nid])
                else:
                    ops.append([["write_untyped", "write_typed", "write_tb"][k], nid])
            elif k == 3:
                ops.append(["validate"])
                validated = True
            elif k == 4:
                ops.append(["serialize"])
            elif k == 5:
                ops.append(["flush", st.choose(2, "flush-cls")])
            else:
                ops.append(["reset"])
        actors.append(ops)
    return actors


class TbA(Exception):
    pass


class TbB(Exception):
    pass


def run_memory(rc, cfg, actors_ops):
    e = rc.eliot
    from eliot._traceback import TRACEBACK_MESSAGE
    s = Sched(rc.dec.stream("sched"), p_switch=cfg["p_switch"], gran="line", max_steps=400000,
              traced=["_output.py"])
    rc.sched = s
    rc.clock = seams.begin_run(rc.seed)
    logger = e.MemoryLogger()
    logger_b = e.MemoryLogger()
    ser_of = {}
    ser_b = {}
    hist = []       # dict(op, nid, inv, ret, result)
    errors = []

    def mk_typed(n):
        mt = e.MessageType("c16:t%d" % n, [e.Field("v", lambda v: v * 2, ""), e.Field("nid", lambda v: v, "")], "")
        ser_of[n] = mt._serializer
        return {"nid": n, "message_type": "c16:t%d" % n, "v": n, "task_uuid": "u", "task_level": [n], "timestamp": 1.0}

    def actor_fn(name, ops):
        def fn():
            for op in ops:
                k = op[0]
                h = {"op": k, "actor": name, "inv": s.stamp()}
                try:
                    if k == "write_untyped":
                        h["nid"] = op[1]
                        ser_of[op[1]] = None
                        logger.write({"nid": op[1], "message_type": "c16:u", "task_uuid": "u",
                                      "task_level": [op[1]], "timestamp": 1.0})
                    elif k == "write_typed":
                        h["nid"] = op[1]
                        d = mk_typed(op[1])
                        logger.write(d, ser_of[op[1]])
                    elif k == "write_nested":
                        h["nid"] = op[1]
                        nb = op[2]

                        mtb = e.MessageType("c16:b%d" % nb, [e.Field("nid", lambda x: x, "")], "")
                        ser_b[nb] = mtb._serializer
                        fired = []

                        def via(v, nb=nb, mtb=mtb, fired=fired):
                            # runs inside logger A's locked section (validation runs serializers, more than
                            # once per message: only the first invocation logs to B)
                            if not fired:
                                fired.append(1)
                                logger_b.write({"nid": nb, "message_type": "c16:b%d" % nb, "task_uuid": "u",
                                                "task_level": [nb], "timestamp": 1.0}, mtb._serializer)
                            return v
                        mt = e.MessageType("c16:n%d" % op[1], [e.Field("v", via, ""), e.Field("nid", lambda x: x, "")], "")
                        ser_of[op[1]] = mt._serializer
                        logger.write({"nid": op[1], "message_type": "c16:n%d" % op[1], "v": 1, "task_uuid": "u",
                                      "task_level": [op[1]], "timestamp": 1.0}, mt._serializer)
                    elif k == "write_b":
                        h["nid"] = op[1]
                        h["logger"] = "b"
                        mtb = e.MessageType("c16:b%d" % op[1], [e.Field("nid", lambda x: x, "")], "")
                        ser_b[op[1]] = mtb._serializer
                        logger_b.write({"nid": op[1], "message_type": "c16:b%d" % op[1], "task_uuid": "u",
                                        "task_level": [op[1]], "timestamp": 1.0}, mtb._serializer)
                    elif k == "write_tb":
                        h["nid"] = op[1]
                        cls = TbA if op[1] % 2 else TbB
                        h["cls"] = cls
                        ser_of[op[1]] = TRACEBACK_MESSAGE._serializer
                        logger.write({"nid": op[1], "message_type": "eliot:traceback", "reason": cls("x%d" % op[1]),
                                      "traceback": "tb", "exception": cls, "task_uuid": "u",
                                      "task_level": [op[1]], "timestamp": 1.0},
                                     TRACEBACK_MESSAGE._serializer)
                    elif k == "validate":
                        logger.validate()
                    elif k == "serialize":
                        h["result"] = logger.serialize()
                    elif k == "flush":
                        cls = [TbA, TbB][op[1]]
                        h["cls"] = cls
                        h["result"] = logger.flush_tracebacks(cls)
                    elif k == "reset":
                        logger.reset()
                    elif k == "poke":
                        rc.probe("failing_logger_call")
                        try:
                            if op[1] == 0:
                                logger.serialize()
                            else:
                                logger.flush_tracebacks(42)
                        except SimAbort:
                            raise
                        except Exception:  # noqa
                            h["failed"] = True
                except SimAbort:
                    raise
                except BaseException as ex:  # noqa
                    errors.append((name, k, ex))
                h["ret"] = s.stamp()
                hist.append(h)
                s.yield_point("between-ops")
        return fn

    def main():
        acts = [s.spawn("T%d" % i, actor_fn("T%d" % i, ops)) for i, ops in enumerate(actors_ops)]
        for a in acts:
            s.yield_point("join")
            s.join(a)

    try:
        try:
            s.run_main(main)
        except SimAbort:
            pass
    finally:
        seams.end_run()
    if s.deadlock:
        raise Violation("deadlock", "deadlock: %r" % (s.deadlock,))
    if s.abort:
        raise Violation("no_termination", "run aborted: %s" % s.abort)
    if errors:
        name, k, ex = errors[0]
        raise Violation(("raised", {"op": k, "exc": type(ex).__name__}),
                        "%s in thread %s raised %s: %s" % (k, name, type(ex).__name__, str(ex)[:300]))
    # the second logger: pairs intact, nothing lost (it is never reset)
    if len(logger_b.messages) != len(logger_b.serializers):
        raise Violation("length_mismatch", "second logger: len(messages)=%d, len(serializers)=%d" % (
            len(logger_b.messages), len(logger_b.serializers)))
    for m, sr in zip(logger_b.messages, logger_b.serializers):
        if ser_b.get(m.get("nid")) is not sr:
            raise Violation("pair_mismatch", "second logger: message nid=%s is paired with another message's "
                            "serializer" % m.get("nid"))
    msgs, sers, tbs = logger.messages, logger.serializers, logger.tracebackMessages
    if len(msgs) != len(sers):
        raise Violation("length_mismatch", "len(messages)=%d, len(serializers)=%d" % (len(msgs), len(sers)))
    for m, sr in zip(msgs, sers):
        if ser_of.get(m.get("nid"), "?") is not sr:
            raise Violation("pair_mismatch", "message nid=%s is paired with another message's serializer" % m.get("nid"))
    resets = [h for h in hist if h["op"] == "reset"]
    last_reset_inv = max([h["inv"] for h in resets], default=None)
    last_reset_ret = max([h["ret"] for h in resets], default=None)
    present = {}
    for m in msgs:
        present[m.get("nid")] = present.get(m.get("nid"), 0) + 1
    for n, c in present.items():
        if c > 1:
            raise Violation("duplicated", "message nid=%s recorded %d times" % (n, c))
    writes = [h for h in hist if h["op"].startswith("write") and h.get("logger") != "b"]
    for h in writes:
        n = h["nid"]
        if last_reset_inv is not None and h["ret"] < min(r["inv"] for r in resets if r["ret"] == last_reset_ret):
            # returned before the last reset was invoked
            if n in present:
                raise Violation("reset_survivor", "message nid=%s written before the last reset is still recorded" % n)
        elif last_reset_ret is None or h["inv"] > last_reset_ret:
            if n not in present:
                raise Violation("lost", "message nid=%s (write invoked after the last reset returned) is not recorded" % n)
    # traceback list
    tb_present = {}
    for m in tbs:
        tb_present[m.get("nid")] = tb_present.get(m.get("nid"), 0) + 1
    flushed = {}
    for h in hist:
        if h["op"] == "flush":
            for m in h["result"]:
                n = m.get("nid")
                flushed[n] = flushed.get(n, 0) + 1
                w = next((x for x in writes if x["nid"] == n), None)
                if w is None or w["op"] != "write_tb":
                    raise Violation("flush_wrong", "flush_tracebacks returned nid=%s which is not a traceback" % n)
                if not issubclass(w["cls"], h["cls"]):
                    raise Violation("flush_wrong", "flush_tracebacks(%s) returned a %s" % (h["cls"].__name__, w["cls"].__name__))
                if w["inv"] > h["ret"]:
                    raise Violation("flush_wrong", "flush returned a message written after it returned")
    for n, c in flushed.items():
        if c > 1:
            raise Violation("flushed_twice", "traceback nid=%s was returned by two flushes" % n)
        if n in tb_present:
            raise Violation("flushed_still_listed", "traceback nid=%s was flushed but is still listed" % n)
    for n, c in tb_present.items():
        if c > 1:
            raise Violation("duplicated", "traceback nid=%s listed %d times" % (n, c))
        if n not in present:
            raise Violation("tb_inconsistent", "traceback nid=%s listed but not among messages" % n)
    for h in writes:
        if h["op"] == "write_tb" and h["nid"] in present and h["nid"] not in tb_present and h["nid"] not in flushed:
            # may only be missing if a validate() serialized its reason before a flush looked at it: never removes
            raise Violation("tb_inconsistent", "traceback nid=%s recorded but neither listed nor flushed" % h["nid"])
    # serialize() results: each dict serialized with its own serializer (v doubled)
    for h in hist:
        if h["op"] == "serialize":
            for d in h["result"]:
                n = d.get("nid")
                mt = d.get("message_type", "")
                if "v" in d and isinstance(n, int) and mt != "c16:t%d" % n and not mt.startswith("c16:n"):
                    raise Violation("serialize_wrong", "serialize() paired message nid=%s with the serializer of %r" % (n, mt))
                if mt.startswith("c16:t") and d.get("v") not in (2 * n, 4 * n, 8 * n):
                    raise Violation("serialize_wrong", "serialize() gave v=%r for nid=%s" % (d.get("v"), n))
    return {"ops": len(hist), "resets": len(resets)}


def run_file(rc, cfg, actors_ops):
    e = rc.eliot
    s = Sched(rc.dec.stream("sched"), p_switch=cfg["p_switch"], gran="line", max_steps=400000,
              traced=["_output.py"])
    rc.sched = s
    rc.clock = seams.begin_run(rc.seed)
    pio = cfg.get("p_io_error", 0.0)
    f = SimFile("log", text=cfg["text"], fault=rc.dec.stream("fault"), p_io_error=pio, stats=rc.faults)
    f2 = SimFile("log2", text=not cfg["text"])
    rc.file = f
    offered = []

    def actor_fn(name, ops):
        def fn():
            for op in ops:
                offered.append(op[1])
                e.log_message(message_type="c16:f", nid=op[1], pad="x" * (op[1] % 5), actor=name)
                s.yield_point("between-ops")
        return fn

    def main():
        e.add_destinations(e.FileDestination(file=f), e.FileDestination(file=f2))
        acts = [s.spawn("T%d" % i, actor_fn("T%d" % i, ops)) for i, ops in enumerate(actors_ops)]
        for a in acts:
            s.yield_point("join")
            s.join(a)

    try:
        try:
            s.run_main(main)
        except SimAbort:
            pass
    finally:
        seams.end_run()
    if s.deadlock or s.abort:
        raise Violation("no_termination", "run aborted: %s %s" % (s.abort, s.deadlock))
    for a in s.actors:
        if a.exc is not None:
            raise Violation(("raised", {"op": "log", "exc": type(a.exc).__name__}), "thread raised %r" % (a.exc,))
    for ff in (f, f2):
        data = ff.os_cache + ff.user_buf
        parts = data.split(b"\n")
        if pio and ff is f:
            # a write error may have accepted a prefix of a line: such fragments glue to the next line
            continue_check = False
            good = [p2 for p2 in parts[:-1]]
            cnt = {}
            for raw in good:
                try:
                    n = json.loads(raw.decode("utf-8"))["nid"]
                except Exception:  # noqa
                    continue
                cnt[n] = cnt.get(n, 0) + 1
            dup = [n for n, c in cnt.items() if c > 1]
            if dup:
                raise Violation("duplicated", "after an I/O error message nid=%d appears %d times in file %s" % (
                    dup[0], cnt[dup[0]], ff.name))
            # what a write call accepted in full stays in the file, in call order (another thread's failed
            # write -- or its clean-up -- must not take it away again)
            pos = 0
            for c in ff.calls:
                if c[0] == "write":
                    i = data.find(c[1], pos)
                    if i < 0:
                        raise Violation(("lost", {"how": "written_then_removed"}),
                                        "the line %r was accepted by a write call that returned normally and is not "
                                        "in file %s afterwards" % (c[1][:80], ff.name))
                    pos = i + len(c[1])
            # the write discipline still holds for every call that was made
            for c in ff.calls:
                if c[0] in ("write", "write!") and not c[1].endswith(b"\n"):
                    raise Violation("split_write", "a write call did not carry whole lines only: %r" % c[1][:80])
            continue
        if parts[-1] != b"":
            raise Violation("torn_line", "file %s does not end with a newline: %r" % (ff.name, parts[-1][:80]))
        seen = {}
        for raw in parts[:-1]:
            try:
                d = json.loads(raw.decode("utf-8"))
                if str(d.get("message_type", "")).startswith("eliot:"):
                    continue          # eliot's own: a report about a failed write to the other file, a notice
                n = d["nid"]
            except Exception:  # noqa
                raise Violation("torn_line", "a line of %s is not one JSON message: %r" % (ff.name, raw[:120]))
            seen[n] = seen.get(n, 0) + 1
        for n in offered:
            if seen.get(n, 0) != 1:
                if pio and ff is f and seen.get(n, 0) == 0:
                    continue      # a write or flush of this line failed: it may be missing, never doubled
                raise Violation("lost" if n not in seen else "duplicated",
                                "message nid=%d appears %d times in file %s" % (n, seen.get(n, 0), ff.name))
        for c in ff.calls:
            if c[0] == "write" and not c[1].endswith(b"\n"):
                raise Violation("split_write", "a write call did not carry whole lines only: %r" % c[1][:80])
    return {"ops": len(offered)}


def run_one(seed, dec):
    cfg = draw_cfg(dec.stream("cfg"))
    ops = gen_ops(dec.stream("prog"), cfg)
    rc = RunCtx(ID, seed, dec, cfg)
    extra = {}
    try:
        extra = (run_memory if cfg["mode"] == "memory" else run_file)(rc, cfg, ops) or {}
    except Violation as v:
        rc.fail_v(v)
    prog = {"world": "threads", "actors": [[]], "types": {}}
    shape = tuple(tuple(o[0] for o in a) for a in ops)
    res = base.result(rc, prog, nontrivial=bool(rc.sched.switches), distinct_extra=shape,
                      extra_stats={"logger_ops": extra.get("ops", 0), "modes": {cfg["mode"]: 1}})
    res["sample"] = {"cfg": cfg, "actors": ops}
    return res
