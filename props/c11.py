"""C11 -- a crash loses no acknowledged message and leaves a parseable log.

A "crash" is the observation of the durable state of the SimFile at a drawn
instant (process death = whatever the process would have done next no longer
matters): crash points are drawn over every yield point -- every source line
of _output.py/_action.py, inside file.write, between write and flush, after
the flush, between logging calls -- with several crash points per run.
Acknowledged = the logging call had returned before that instant.
"""

import json

from esim import prog as P
from esim import sched as _sched
from esim.driver import Violation
from esim.run import RunCtx, Tap, run_program
from esim.simfile import SimFile
from esim.values import canon_fields
from . import base

ID = "C11"
QUICK_RUNS = 10000
THOROUGH_RUNS = 400000
LEVEL = "exploration"
RULE = ("one run = one generated program (1-3 threads, or 1-3 coroutines on the virtual-time loop) logging through FileDestination(SimFile) with up to 8 crash "
        "points drawn over all yield points (40% biased into the write/flush window; eager write-back of the "
        "user buffer on/off, so torn tails occur); per crash point the frozen disk is checked: complete lines are "
        "offered messages without duplicates, every acknowledged message present, per-thread order, at most one "
        "trailing fragment that is a prefix of an in-flight write, and Parser output on the complete lines equals "
        "an independent reconstruction, with completeness exactly as the model says. distinct = distinct "
        "(program shape, crash-point tag multiset, schedule signature); non-trivial = >= 1 crash point inside a "
        "logging call.")
REAL = base.REAL
STUBS = base.STUBS
ASSUMPTIONS = ["A1: one file.write call is atomic w.r.t. other writers",
               "process death loses the user-space buffer, keeps what reached the OS (no power loss; eliot never fsyncs)",
               "the reader discards a final fragment that has no newline"]


class Trigger(object):
    """A value whose JSON encoding goes through the destination's json_default -- which logs."""

    def __init__(self, k):
        self.k = k


_TRIG = [0]


def prepare():
    base.prepare_common()
    base.monitoring()
    from esim import values as V
    orig = V.make_bad

    def make(kind):
        if kind == "trigger":
            _TRIG[0] += 1
            return Trigger(_TRIG[0])
        return orig(kind)
    V.make_bad = make


def draw_cfg(st):
    world = ["seq", "threads", "async"][st.weighted([60, 28, 12], "world")]
    cfg = {
        "world": world,
        "max_ops": [6, 15, 30][st.choose(3, "size")],
        "max_depth": 1 + st.choose(4, "depth"),
        "value_depth": st.choose(2, "vdepth"),
        "p_more": [0.8, 0.6, 0.9][st.choose(3, "p_more")],
        "p_catch": 0.6,
        "n_actors": 1,
        "check_context": False,
        "act_styles": [i for i in range(len(P.ACT_STYLES)) if i in (0, 1) or st.choose(2, "style-on")],
        "msg_apis": [0, 1, 2],
        "w_ops": [7, 5, 1, 1, 1, 0, 0],
        "gran": "line",
        "traced": ["_output.py", "_action.py"],
        "text_file": bool(st.choose(2, "text")),
        "eager": bool(st.choose(2, "eager")),
        "p_crash": [0.01, 0.05, 0.002][st.choose(3, "p_crash")],
        "p_crash_file": [0.3, 0.1, 0.6][st.choose(3, "p_crash_file")],
        # real-OS leg: the same program in a forked child against a real file, SIGKILLed at a drawn
        # yield point; validates SimFile's claim that flushed data survives process death
        "real_os": st.choose(50, "real_os") == 49,
        # a json_default that logs (re-entrant logging from inside the serialization of another message)
        "logging_default": st.choose(4, "logging_default") == 3,
    }
    if cfg["logging_default"]:
        cfg["p_bad"] = 0.3
        cfg["bad_kinds"] = ["trigger"]
        cfg["real_os"] = False
    if cfg["real_os"]:
        world = "seq"
        cfg["world"] = "seq"
    if world == "async":
        # coroutines on the virtual-time loop: a logging call made while an event loop is running is
        # acknowledged like any other
        cfg["n_actors"] = 1 + st.choose(3, "actors")
        cfg["spawn_kinds"] = ["task"]
        cfg["w_ops"] = [7, 5, 1, 1, 1, 2, 2]
    if world == "threads":
        cfg["n_actors"] = 2 + st.choose(2, "actors")
        cfg["p_switch"] = [0.05, 0.2][st.choose(2, "p_switch")]
        cfg["max_ops"] = min(cfg["max_ops"], 15)
        cfg["spawn_kinds"] = ["thread", "remote"]
        cfg["w_ops"] = [7, 5, 1, 1, 1, 1, 1]
    return cfg


class Snap(object):
    __slots__ = ("stamp", "tag", "data", "inflight")

    def __init__(self, stamp, tag, data, inflight):
        self.stamp = stamp
        self.tag = tag
        self.data = data
        self.inflight = inflight


def setup(rc, interp):
    e = rc.eliot
    fault = rc.dec.stream("fault")
    f = SimFile("log", text=rc.cfg["text_file"], fault=fault, eager=rc.cfg["eager"], stats=rc.faults)
    rc.file = f
    rc.tap = Tap(rc, deep=False)
    kw = {}
    if rc.cfg.get("logging_default"):
        _TRIG[0] = 0

        def logging_default(o):
            if isinstance(o, Trigger):
                # acknowledged on its own: the nested logging call returns before the outer line is written
                rc.probe("logged_from_inside_json_default")
                interp.api(("nested", o.k), e.log_message, message_type="c11:nested", trigger=o.k)
                return "trigger-%d" % o.k
            from eliot.json import json_default
            return json_default(o)
        kw["json_default"] = logging_default
    e.add_destinations(e.FileDestination(file=f, **kw), rc.tap)
    # which logging call emitted a message: noted where the message enters the output stage (the call in
    # progress when a destination finally sees it is the same one only if delivery is synchronous --
    # which is what this property is about)
    rc.sent_in = {}
    dests = getattr(e.Logger, "_destinations", None)
    orig_send = getattr(dests, "send", None)

    def send(message, logger=None):
        a = _sched.current_actor()
        slot = a.data if a is not None else rc.noactor
        try:
            rc.sent_in.setdefault(key_of(message), slot.get("call"))
        except Exception:  # noqa
            pass
        return orig_send(message, logger)
    if orig_send is not None:
        dests.send = send
    # (a tree without that entry point: messages are attributed to the call in progress when the tap sees them)
    rc.snaps = []
    crash = rc.dec.stream("crash")
    p, pf = rc.cfg["p_crash"], rc.cfg["p_crash_file"]

    def observer(s, actor, tag):
        if len(rc.snaps) >= 8:
            return
        t = tag if isinstance(tag, str) else tag[0]
        is_file = t.startswith("file.")
        if not crash.chance(pf if is_file else p, "crash?"):
            return
        data = f.os_cache
        if f.eager:
            pending = f.user_buf + (f.in_write or b"")
            n = crash.choose(len(pending) + 1, "torn")
            data = data + pending[:n]
            if n and not pending[:n].endswith(b"\n"):
                rc.count_fault("torn_tail")
        if isinstance(tag, tuple):
            where = "line:%s" % tag[1]
        else:
            where = t
        in_call = actor.data.get("call") is not None
        rc.count_fault("crash")
        rc.probe("crash@" + (where if is_file else ("in_call" if in_call else "idle")))
        rc.snaps.append(Snap(s.stamp(), where if is_file else ("in_call" if in_call else "idle"), data, in_call))

    rc.sched.observers.append(observer)


def run_one(seed, dec):
    cfg = draw_cfg(dec.stream("cfg"))
    prog = P.generate(dec.stream("prog"), cfg)
    rc = RunCtx(ID, seed, dec, cfg)
    if cfg.get("logging_default"):
        rc.faulty_values = True
    run_program(rc, prog, setup)
    if rc.violation is None:
        try:
            oracle(rc)
        except Violation as v:
            rc.fail_v(v)
    tags = tuple(sorted(s.tag for s in rc.snaps))
    nontrivial = any(s.inflight or s.tag.startswith("file.") for s in rc.snaps)
    extra = {"crash_points": len(rc.snaps)}
    if cfg["real_os"] and rc.violation is None:
        try:
            extra.update(real_os_leg(seed, dec, cfg, prog, rc))
        except Violation as v:
            rc.fail_v(v)
    return base.result(rc, prog, nontrivial=nontrivial, distinct_extra=tags, extra_stats=extra)


# ------------------------------------------------------------- real-OS leg
def real_os_leg(seed, dec, cfg, prog, sim_rc):
    """Run the same program in a forked child that logs to a *real* file and
    SIGKILLs itself at a drawn yield point; check the file the kernel kept."""
    import os
    import shutil
    import signal
    import tempfile
    from esim.dec import Decisions
    expected = sim_rc.file.os_cache
    total = sim_rc.sched.steps
    k = dec.stream("realkill").choose(total + 2, "kill-at")
    recorded = dec.recorded()
    tmp = tempfile.mkdtemp(prefix="esim-c11-")
    path = os.path.join(tmp, "log")
    r, w = os.pipe()
    pid = os.fork()
    if pid == 0:
        status = 3
        try:
            os.close(r)
            dec2 = Decisions(replay=recorded)
            cfg2 = dict(cfg)
            rc2 = RunCtx(ID, seed, dec2, cfg2)
            count = [0]
            steps = [0]

            def counting(message):
                count[0] += 1

            def on_return(cid, label):
                os.write(w, b"%d\n" % count[0])

            rc2.on_return = on_return

            def setup2(rc, interp):
                f = open(path, "ab")
                rc.eliot.add_destinations(rc.eliot.FileDestination(file=f), counting)

                def observer(s, actor, tag):
                    steps[0] += 1
                    if steps[0] == k:
                        os.kill(os.getpid(), signal.SIGKILL)
                rc.sched.observers.append(observer)

            run_program(rc2, prog, setup2)
            status = 0
        except BaseException:  # noqa
            status = 4
        finally:
            os._exit(status)
    os.close(w)
    from esim.run import read_child
    acks, st, hung = read_child(r, pid, 40.0)
    if hung:
        from esim.sched import HarnessError
        shutil.rmtree(tmp, ignore_errors=True)
        raise HarnessError("real-OS child hung (killed after 40 s)")
    try:
        with open(path, "rb") as f:
            data = f.read()
    except FileNotFoundError:
        data = b""
    shutil.rmtree(tmp, ignore_errors=True)
    killed = os.WIFSIGNALED(st) and os.WTERMSIG(st) == signal.SIGKILL
    if not killed and not (os.WIFEXITED(st) and os.WEXITSTATUS(st) == 0):
        from esim.sched import HarnessError
        raise HarnessError("real-OS child ended with status %r" % (st,))
    acked = 0
    for line in acks.split(b"\n"):
        if line.strip():
            acked = max(acked, int(line))
    data = _remap_uuids(expected, data)
    if not _is_prefix_upto_cut_uuid(expected, data):
        raise Violation(("real_os_mismatch", {"killed": killed}),
                        "real file after %s holds %r..., the simulated disk of the same program holds %r..." % (
                            "SIGKILL at yield point %d" % k if killed else "normal exit",
                            data[-80:], expected[max(0, len(data) - 80):len(data)]))
    complete = data.count(b"\n")
    if complete < acked:
        raise Violation(("real_os_ack_lost", {"killed": killed}),
                        "child acknowledged %d messages before it was killed at yield point %d, the file holds %d "
                        "complete lines" % (acked, k, complete))
    if not killed and data != expected:
        raise Violation("real_os_mismatch", "child exited normally but the file differs from the simulated one")
    lines = data.split(b"\n")[:-1]
    check_parse(sim_rc, Snap(0, "real_os", data, False), [json.loads(x.decode("utf-8")) for x in lines],
                sim_rc.tap.records)
    sim_rc.count_fault("real_sigkill" if killed else "real_clean_exit")
    tail = data.split(b"\n")[-1]
    if tail:
        sim_rc.count_fault("real_torn_tail")
    return {"real_os_forks": 1, "real_os_killed": int(killed)}


def call_of(rc, r):
    c = rc.sent_in.get(key_of(r.msg)) or r.call
    return c[0] if c else None


_UUID = None


def _remap_uuids(expected, data):
    """``data`` (what the kernel kept of the child's file) with the child's task uuids replaced by the
    simulator's, paired by order of first appearance.  (How a process draws its uuids is its own business:
    the forked child need not repeat the simulated run's.)"""
    global _UUID
    import re
    if _UUID is None:
        _UUID = re.compile(rb"[0-9a-f]{8}-[0-9a-f]{4}-[0-9a-f]{4}-[0-9a-f]{4}-[0-9a-f]{12}")

    def uniq(b):
        out = []
        seen = set()
        for u in _UUID.findall(b):
            if u not in seen:
                seen.add(u)
                out.append(u)
        return out
    eu, du = uniq(expected), uniq(data)
    mapping = dict(zip(du, eu))
    return _UUID.sub(lambda m: mapping.get(m.group(0), m.group(0)), data)


def _is_prefix_upto_cut_uuid(expected, data):
    import re
    if expected.startswith(data):
        return True
    # a uuid cut off by the kill at the very end cannot be paired: compare up to where it starts
    return expected.startswith(re.sub(rb"[0-9a-f-]*$", b"", data))


def key_of(m):
    return (m.get("task_uuid"), tuple(m.get("task_level") or ()))


def oracle(rc):
    recs = rc.tap.records
    offered = {}
    for r in recs:
        offered[key_of(r.msg)] = r
    ret_at = {}
    for stamp, cid, label in rc.returns:
        ret_at[cid] = stamp
    f = rc.file
    # final state first (crash after everything returned)
    snaps = list(rc.snaps) + [Snap(rc.sched.seq + 1, "end", f.os_cache, False)]
    for sn in snaps:
        check_snapshot(rc, sn, recs, offered, ret_at)


def check_snapshot(rc, sn, recs, offered, ret_at):
    f = rc.file
    parts = sn.data.split(b"\n")
    tail = parts.pop()
    on_disk = []
    seen = set()
    for i, raw in enumerate(parts):
        try:
            d = json.loads(raw.decode("utf-8"))
            assert isinstance(d, dict)
        except Exception:  # noqa
            raise Violation(("garbage_line", {"at": sn.tag}),
                            "crash@%s: complete line %d is not a JSON object: %r" % (sn.tag, i, raw[:120]))
        k = key_of(d)
        r = offered.get(k)
        if r is None or canon_fields(_jsonable(r.msg)) != canon_fields(d):
            raise Violation(("garbage_line", {"at": sn.tag}),
                            "crash@%s: line %d is not a message that was offered: %r" % (sn.tag, i, raw[:200]))
        if k in seen:
            raise Violation(("duplicate_line", {"at": sn.tag}), "crash@%s: message %s appears twice" % (sn.tag, k))
        seen.add(k)
        on_disk.append(r)
        # un-acknowledged complete lines must come from a write call already entered
        cid = call_of(rc, r)
        if not (cid in ret_at and ret_at[cid] < sn.stamp):
            if not any(st < sn.stamp and (w == raw + b"\n" or (b"\n" + w).find(b"\n" + raw + b"\n") >= 0)
                       for st, w in f.invoked):
                raise Violation(("phantom_line", {"at": sn.tag}),
                                "crash@%s: line %d is on disk although no write of it had started" % (sn.tag, i))
    if tail:
        # (a prefix of an in-flight write, or -- when one write call carries several lines -- of what follows
        # one of its line breaks)
        def starts_a_line_of(w):
            if w.startswith(tail):
                return True
            i = w.find(b"\n")
            while i >= 0:
                if w.startswith(tail, i + 1):
                    return True
                i = w.find(b"\n", i + 1)
            return False
        if not any(st < sn.stamp and starts_a_line_of(w) for st, w in f.invoked):
            raise Violation(("garbage_tail", {"at": sn.tag}),
                            "crash@%s: trailing fragment %r is not a prefix of an in-flight write" % (sn.tag, tail[:80]))
    # every acknowledged message is there
    emitted = dict(rc.sent_in)
    for r in recs:
        emitted.setdefault(key_of(r.msg), r.call)
    for k, call in emitted.items():
        cid = call[0] if call else None
        if cid in ret_at and ret_at[cid] < sn.stamp and k not in seen:
            raise Violation(("ack_lost", {"at": sn.tag}),
                            "crash@%s: message %r was acknowledged (call returned at %d, crash at %d) but is not "
                            "a complete line on disk" % (sn.tag, call[1], ret_at[cid], sn.stamp))
    # per-thread order
    by_actor = {}
    for r in on_disk:
        by_actor.setdefault(r.actor, []).append(r.seq)
    for a, seqs in by_actor.items():
        if seqs != sorted(seqs):
            raise Violation(("disk_order", {"at": sn.tag}), "crash@%s: thread %s's lines are out of order" % (sn.tag, a))
    check_parse(rc, sn, [json.loads(p.decode("utf-8")) for p in parts], recs)


def _jsonable(m):
    """The message as the file holds it (Trigger values are encoded by the logging json_default)."""
    if isinstance(m, Trigger):
        return "trigger-%d" % m.k
    if isinstance(m, dict):
        return {k: _jsonable(v) for k, v in m.items()}
    if isinstance(m, (list, tuple)):
        return [_jsonable(v) for v in m]
    return m


def check_parse(rc, sn, msgs, recs):
    """Parser on the complete lines vs an independent reconstruction."""
    from eliot.parse import Parser, WrittenAction, WrittenMessage
    try:
        tasks = list(Parser.parse_stream(msgs))
    except Exception as e:  # noqa
        raise Violation(("parse_error", {"at": sn.tag}), "crash@%s: Parser raised %s: %s" % (
            sn.tag, type(e).__name__, str(e)[:300]))
    by_uuid = {}
    for m in msgs:
        by_uuid.setdefault(m["task_uuid"], []).append(m)
    all_by_uuid = {}
    for r in recs:
        all_by_uuid.setdefault(r.msg["task_uuid"], []).append(r.msg)
    if len(tasks) != len(by_uuid):
        raise Violation(("parse_tasks", {"at": sn.tag}), "crash@%s: %d tasks parsed from %d task uuids" % (
            sn.tag, len(tasks), len(by_uuid)))
    for t in tasks:
        try:
            root = t.root()
        except Exception as e:  # noqa
            raise Violation(("parse_error", {"at": sn.tag}), "crash@%s: a parsed task has no root: %s" % (sn.tag, e))
        u = root.task_uuid
        mine = by_uuid.get(u)
        if mine is None:
            raise Violation(("parse_tasks", {"at": sn.tag}), "crash@%s: a parsed task has unknown uuid %s" % (sn.tag, u))
        # reconstruct: every message must be reachable at its level
        want = {tuple(m["task_level"]): m for m in mine}
        got = {}

        def walk(n):
            if isinstance(n, WrittenAction):
                if n.start_message is not None:
                    got[tuple(n.start_message.task_level.as_list())] = dict(n.start_message.as_dict())
                if n.end_message is not None:
                    got[tuple(n.end_message.task_level.as_list())] = dict(n.end_message.as_dict())
                for c in n.children:
                    walk(c)
            else:
                got[tuple(n.task_level.as_list())] = dict(n.as_dict())
        walk(root)
        if set(got) != set(want):
            raise Violation(("parse_mismatch", {"at": sn.tag}),
                            "crash@%s: task %s: parser tree holds levels %s, disk has %s" % (
                                sn.tag, u, sorted(got), sorted(want)))
        for lv in want:
            if canon_fields(got[lv]) != canon_fields(want[lv]):
                raise Violation(("parse_mismatch", {"at": sn.tag}), "crash@%s: message at %s differs" % (sn.tag, list(lv)))
        # status of actions
        def check_status(n):
            if isinstance(n, WrittenAction):
                pre = tuple(n.task_level.as_list())
                has_start = any(k[:-1] == pre and m.get("action_status") == "started" for k, m in want.items())
                has_end = any(k[:-1] == pre and m.get("action_status") in ("succeeded", "failed") for k, m in want.items())
                if (n.start_message is not None) != has_start or (n.end_message is not None) != has_end:
                    raise Violation(("misreport", {"at": sn.tag}),
                                    "crash@%s: action at %s: start/end presence misreported" % (sn.tag, list(pre)))
                if has_start and not has_end and n.status != "started":
                    raise Violation(("misreport", {"at": sn.tag}),
                                    "crash@%s: unfinished action at %s has status %r" % (sn.tag, list(pre), n.status))
                for c in n.children:
                    check_status(c)
        check_status(root)
        # completeness: exactly when every message the task ever logged is on disk and its root has ended
        full = all_by_uuid.get(u, [])
        root_done = any(len(m["task_level"]) == 1 and (
            m.get("action_status") in ("succeeded", "failed") or
            ("action_status" not in m and m["task_level"] == [1] and len(full) == 1)) for m in full)
        all_there = len(mine) == len(full)
        expect_complete = root_done and all_there
        if t.is_complete() and not all_there:
            raise Violation(("complete_too_early", {"at": sn.tag}),
                            "crash@%s: task %s reported complete with %d of %d messages on disk" % (
                                sn.tag, u, len(mine), len(full)))
        # (the other direction -- everything is there and the parser still says incomplete -- is C09's
        # statement, checked there; C11 only promises that nothing is reported complete too early)
        if t.is_complete() and not expect_complete:
            raise Violation(("completeness", {"at": sn.tag}),
                            "crash@%s: task %s is_complete()=%s, expected %s (%d of %d messages on disk)" % (
                                sn.tag, u, t.is_complete(), expect_complete, len(mine), len(full)))
