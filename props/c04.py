"""C04 -- the current action is block-scoped and always restored on exit.

SEQ and ASYNC worlds.  After every operation, in the actor that executed it,
``current_action() is`` the Action object the model's context stack has on
top (identity against what start_action returned; None for an empty stack).
Deep nestings of ``with action`` / ``action.context()`` / ``action.run(f)``,
re-entry of context()/run() of the current action, every exit kind, start_task
at any depth, context-less messages; plain generators closed while suspended
inside an action.  Structural cross-check: the tap's messages parse into the
model forest (parent/child by task_level, start_task = new tree).
"""

from esim import prog as P
from esim import oracles as O
from esim.driver import Violation
from esim.run import RunCtx, Tap, run_program
from . import base
from . import c03

ID = "C04"
QUICK_RUNS = 20000
THOROUGH_RUNS = 800000
LEVEL = "exploration"
RULE = ("one run = one generated program nesting the three scoping constructs to depth <= 8 with re-entry, "
        "every exit kind (return, raise of 14 classes, cancellation, generator close/throw) at each level; "
        "oracle: identity of current_action() against the model stack after every op and at every scope "
        "entry/exit, plus: in the parsed log every action and message hangs under the action the model says (structure only). distinct = distinct (program shape, cancel/fault "
        "counts); non-trivial = depth >= 2.")
REAL = base.REAL
STUBS = base.STUBS
ASSUMPTIONS = ["a plain generator suspended inside `with action:` shares the caller's context; the driver does no "
               "scoping op of its own while it is suspended (documented limitation, see C15 for decorated generators)"]


def prepare():
    base.prepare_common()
    base.monitoring()


def draw_cfg(st):
    cfg = c03.draw_cfg(st, "C04")
    cfg["max_depth"] = 3 + st.choose(6, "depth4")
    cfg["w_reenter"] = 1 + st.choose(3, "reenter4")
    cfg["w_plain_gen"] = st.choose(3, "plaingen4")
    cfg["extractors"] = []
    cfg["join_after_scope"] = True
    cfg["foreign_finish"] = bool(st.choose(2, "foreign_finish"))
    # a generator suspended inside an action's block, stepped in one contextvars Context and closed from here
    cfg["w_destop"] = st.choose(2, "xctx_close")
    cfg["act_styles"] = [i for i in range(len(P.ACT_STYLES)) if i in (0, 1, 2, 3, 8) or st.choose(2, "style4")]
    w = list(cfg["w_ops"])
    w[0] = 3
    w[1] = 8
    cfg["w_ops"] = w
    return cfg


def op_xctx_close(interp, op, env):
    """A plain generator suspended inside `with action:` / `with action.context():` was stepped in ANOTHER
    Context (a task, a thread pool, copy_context().run) and is closed from this one.  Unsupported use as far
    as the generator's own block goes (the close may fail with ValueError, its action may stay unfinished --
    both tolerated; it logs to a logger of its own, outside the checked forest), but the closer's scope is
    covered by the property: inside its own block current_action() stays its action."""
    import contextvars
    rc = interp.rc
    e = rc.eliot
    ml = e.MemoryLogger()
    variant = sum(len(str(k)) for k in op) + len(op.get("add", ())) + int(op.get("remove", 0))
    use_context = variant % 2 == 0
    fresh = (variant // 2) % 2 == 0

    def g():
        a = e.start_task(ml, action_type="x:suspended")
        if use_context:
            with a.context():
                yield 1
            a.finish()
        else:
            with a:
                yield 1

    gen = g()
    rc.live_gens.append(gen)
    if fresh:
        ctx = contextvars.Context()
        ctx.run(next, gen)
    else:
        other = e.start_task(ml, action_type="x:elsewhere")

        def elsewhere():
            other.__enter__()
            next(gen)
        ctx = contextvars.copy_context()
        ctx.run(elsewhere)
    interp.check_current(env, "foreign_step")
    try:
        gen.close()
    except (ValueError, RuntimeError):
        rc.probe("foreign_close_refused")
    rc.probe("generator_closed_from_another_context")
    interp.check_current(env, "foreign_close")


def setup(rc, interp):
    c03.setup(rc, interp)
    rc.custom_ops["destop"] = op_xctx_close


def run_one(seed, dec):
    cfg = draw_cfg(dec.stream("cfg"))
    prog = P.generate(dec.stream("prog"), cfg)
    rc = RunCtx(ID, seed, dec, cfg)
    run_program(rc, prog, setup)
    if rc.violation is None:
        try:
            msgs = [r.msg for r in rc.tap.records]
            # C04 is about who is whose child: no field values, no completeness, eliot's own reports float
            O.check_forest(msgs, rc.model, order_free=False, lenient=True, fields=False, require_complete=False,
                           status=False)
        except Violation as v:
            rc.fail_v(v)
    rc.faults["body_raise"] = sum(1 for a in rc.model.all_actions() if a.outcome == "failed")
    return base.result(rc, prog)
