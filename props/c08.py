"""C08 -- every destination gets each message once, in order; faults are
isolated and reported exactly once.

SEQ world: exact accounting against an executable model of the fan-out, over
1-5 destinations with drawn failure masks, destinations added and removed
between messages.  THREADS world (10%): per-destination, per-thread order.
"""

from esim import prog as P
from esim.driver import Violation, class_path, exc_text
from esim.run import RunCtx, Tap, FaultyDest, run_program
from . import base
from .base import canon_msg

ID = "C08"
QUICK_RUNS = 15000
THOROUGH_RUNS = 600000
LEVEL = "exploration"
RULE = ("one run = one generated program (actions, messages, tracebacks, raises) interleaved with add/remove of "
        "destinations, 1-5 destinations each with a failure mask (bernoulli p, first k, every k-th, always, only "
        "reports, only non-reports, never) and one of 5 exception kinds; oracle = executable fan-out model: per "
        "destination the exact sequence of offers, one report per raising offer of a non-report, none for "
        "reports, report content. distinct = distinct (program shape, fired-fault counts, schedule signature); "
        "non-trivial = >= 1 destination raised.")
REAL = base.REAL
STUBS = base.STUBS
ASSUMPTIONS = ["destinations do not mutate the message they are offered",
               "no destination is registered twice at the same time"]

MASKS = [["bernoulli", 0.3], ["always"], ["first", 2], ["every", 3], ["reports"], ["nonreports"],
         ["bernoulli", 0.05], ["never"], ["every", 2], ["first", 5]]


def prepare():
    base.prepare_common()
    base.monitoring()


def draw_cfg(st):
    world = ["seq", "threads"][st.weighted([90, 10], "world")]
    cfg = {
        "world": world,
        "max_ops": [8, 20, 40][st.choose(3, "size")],
        "max_depth": 1 + st.choose(4, "depth"),
        "value_depth": 0,
        "p_more": [0.8, 0.6, 0.9][st.choose(3, "p_more")],
        "p_catch": 0.7,
        "n_actors": 1,
        "check_context": False,
        "act_styles": [0, 1],
        "msg_apis": [0, 1],
        "w_ops": [8, 4, 1, 1, 1, 0, 0],
        "w_destop": st.choose(3, "w_destop") if world == "seq" else 0,
        "masks": MASKS,
        "recursion_guard": "violation",
        "call_budget": 200000,
    }
    if world == "threads":
        cfg["n_actors"] = 2 + st.choose(2, "actors")
        cfg["p_switch"] = [0.05, 0.2, 0.5][st.choose(3, "p_switch")]
        cfg["gran"] = ["line", "op"][st.choose(2, "gran")]
        cfg["traced"] = ["_output.py", "_action.py"]
        cfg["max_ops"] = min(cfg["max_ops"], 20)
    # messages logged before the first add_destinations: re-delivered to (possibly failing) destinations
    cfg["prebuffer"] = ([0, 0, 1, 3, 8, 0, 0, 2] * 6 + [0, 1003])[st.choose(50, "prebuffer")] if world == "seq" else 0
    if cfg["prebuffer"] > 100:
        cfg["call_budget"] = 20000000      # re-delivering a full buffer to failing destinations is one long call
    n = 1 + st.choose(5, "n-dests")
    cfg["dests"] = [{"mask": MASKS[st.choose(len(MASKS), "mask")], "exc": st.choose(6, "exc-kind")}
                    for _ in range(n)]
    return cfg


def _mk(rc, spec):
    i = len(rc.all_dests)
    d = FaultyDest(rc, "d%d" % i, tuple(spec["mask"]), spec["exc"])
    d.intervals = []
    rc.all_dests.append(d)
    return d


def setup(rc, interp):
    rc.ref = Tap(rc, "ref")
    rc.tap = rc.ref
    rc.all_dests = []
    rc.registered = []
    ds = [_mk(rc, s) for s in rc.cfg["dests"]]
    rc.pre = []
    npre = rc.cfg.get("prebuffer", 0)
    for k in range(npre):
        nid = -(k + 1)
        rc.pre.append(("msg", nid))
        if npre > 100:
            rc.eliot.log_message(message_type="c08:pre", nid=nid)
            rc.returns.append((rc.stamp(), -nid, ("msg", nid)))
        else:
            interp.api(("msg", nid), rc.eliot.log_message, message_type="c08:pre", nid=nid)
    if npre > 1000:
        # only the most recent 1000 are retained
        drop = set(("msg", -(k + 1)) for k in range(npre - 1000))
        rc.returns[:] = [r for r in rc.returns if r[2] not in drop]
        rc.probe("prebuffered_over_1000")
    if rc.pre:
        rc.probe("prebuffered_redelivery")
    t = rc.stamp()          # registered from here on: the buffered backlog is re-delivered *during* the add
    interp.api(("destop", "first-add"), rc.eliot.add_destinations, rc.ref, *ds)
    for d in ds:
        d.intervals.append([t, None])
        rc.registered.append(d)
    rc.custom_ops["destop"] = op_destop


def op_destop(interp, op, env):
    rc = interp.rc
    e = rc.eliot
    if "add" in op:
        if len(rc.registered) >= 6:
            return
        ds = [_mk(rc, s) for s in op["add"]]
        interp.api(("destop", "add"), e.add_destinations, *ds)
        t = rc.stamp()
        for d in ds:
            d.intervals.append([t, None])
            rc.registered.append(d)
        rc.probe("dest_added")
    elif "remove" in op:
        if not rc.registered:
            return
        d = rc.registered[op["remove"] % len(rc.registered)]
        interp.api(("destop", "remove"), e.remove_destination, d)
        d.intervals[-1][1] = rc.stamp()
        rc.registered.remove(d)
        rc.probe("dest_removed")
    # "globals" is C12's; ignored here


def run_one(seed, dec):
    cfg = draw_cfg(dec.stream("cfg"))
    prog = P.generate(dec.stream("prog"), cfg)
    rc = RunCtx(ID, seed, dec, cfg)
    run_program(rc, prog, setup)
    if rc.violation is None:
        try:
            if cfg["world"] == "seq":
                oracle_seq(rc)
            else:
                oracle_threads(rc)
        except Violation as v:
            rc.fail_v(v)
    return base.result(rc, prog, nontrivial=rc.faults.get("dest_raise", 0) > 0)


REPORT = "eliot:destination_failure"


def is_report(m):
    return m.get("message_type") == REPORT


def is_own(m):
    """Some other message eliot logs on its own account (a notice, whatever a later version adds): it reaches the
    output stage like any message -- offered to every destination, its failures reported -- but it is not one of
    the program's emissions."""
    mt = m.get("message_type")
    return isinstance(mt, str) and mt.startswith("eliot:") and mt != REPORT and "action_status" not in m \
        and mt not in ("eliot:traceback", "eliot:serialization_failure") and m.get("nid") is None


_CANON = {}


def cm(r):
    """canon_msg of a record, computed once."""
    k = id(r)
    v = _CANON.get(k)
    if v is None:
        v = _CANON[k] = canon_msg(r.msg)
    return v


def oracle_seq(rc):
    _CANON.clear()
    S = rc.ref.records
    offers = {}          # (call, canon) -> [(dest index, record)]
    for di, d in enumerate(rc.all_dests):
        for x in d.records:
            offers.setdefault((x.call, cm(x)), []).append((di, x))
    # 1. the non-report messages are exactly the program's emissions, in order
    emitted = [lab for (_seq, _cid, lab) in rc.returns
               if isinstance(lab, tuple) and lab[0] in ("start", "end", "msg", "tb")]
    # (a re-delivered buffered message is offered during the add call; it is recognised by its content)
    got = [("msg", r.msg["nid"]) if r.msg.get("message_type") == "c08:pre" else r.call[1]
           for r in S if not is_report(r.msg) and not is_own(r.msg)]
    if got != emitted:
        n = min(len(got), len(emitted))
        i = next((k for k in range(n) if got[k] != emitted[k]), n)
        raise Violation("emission_mismatch",
                        "reference destination saw %d non-report messages, program emitted %d; first difference "
                        "at %d: saw %r, emitted %r" % (len(got), len(emitted), i,
                                                       got[i] if i < len(got) else None,
                                                       emitted[i] if i < len(emitted) else None))
    # 2. per destination: exact sequence of offers while registered
    for d in rc.all_dests:
        want = []
        for r in S:
            if any(a < r.seq and (b is None or r.seq < b) for a, b in d.intervals):
                want.append(r)
        have = d.records
        wl = [cm(r) for r in want]
        hl = [cm(r) for r in have]
        if wl != hl:
            kind = "missed" if len(hl) < len(wl) else ("extra" if len(hl) > len(wl) else "order")
            n = min(len(hl), len(wl))
            i = next((k for k in range(n) if hl[k] != wl[k]), n)
            raise Violation(("dest_sequence", {"kind": kind}),
                            "destination %s (registered %s) was offered %d messages, expected %d; first difference "
                            "at %d: got %s, expected %s" % (d.name, d.intervals, len(hl), len(wl), i,
                                                            hl[i][:300] if i < len(hl) else None,
                                                            wl[i][:300] if i < len(wl) else None))
    # (in which order the destinations are served for one message is not stated: not checked)
    # 3. reports: exactly one per raising offer of a non-report, none for reports.  The property does not
    #    say *when* a report is emitted, only that it is; so reports are matched by content (they name the
    #    affected message by task_uuid/task_level and carry the exception's class path and text), anywhere
    #    after the message they are about.
    reports = [(i, r) for i, r in enumerate(S) if is_report(r.msg)]
    used = set()
    for i, x in enumerate(S):
        if is_report(x.msg):
            continue
        raised = [(o.seq, o.raised) for _di, o in offers.get((x.call, cm(x)), ()) if o.raised is not None]
        raised.sort(key=lambda t: t[0])
        if not raised:
            continue
        key = "\"'task_level'\": '%s'" % (x.msg["task_level"],)
        uid = "\"'task_uuid'\": \"'%s'\"" % (x.msg["task_uuid"],)
        about_x = [(j, r) for j, r in reports if j > i and j not in used and isinstance(r.msg.get("message"), str)
                   and key in r.msg["message"] and uid in r.msg["message"]]
        for _seq, exc in raised:
            hit = None
            for j, r in about_x:
                if j not in used and r.msg.get("exception") == class_path(type(exc)) and \
                        r.msg.get("reason") == exc_text(exc):
                    hit = j
                    break
            if hit is None:
                loose = [r.msg for j, r in about_x if j not in used]
                if loose:
                    raise Violation("report_content", "the report about message %r says %r / %r, the destination "
                                    "raised %s: %r" % (x.call[1], loose[0].get("exception"), loose[0].get("reason"),
                                                       class_path(type(exc)), exc_text(exc)))
                raise Violation(("report_count", {"dir": "fewer", "exc": type(exc).__name__}),
                                "%s raised by a destination for message %r was not reported" % (
                                    type(exc).__name__, x.call[1]))
            used.add(hit)
    extra = [r for j, r in reports if j not in used]
    if extra:
        raise Violation(("report_count", {"dir": "more"}),
                        "%d eliot:destination_failure report(s) that no raising offer of a non-report accounts for, "
                        "e.g. %s" % (len(extra), canon_msg(extra[0].msg)[:400]))


def oracle_threads(rc):
    S = rc.ref.records
    # every message the program's calls emitted has been offered by the time all threads are done
    emitted = [lab for (_seq, _cid, lab) in rc.returns
               if isinstance(lab, tuple) and lab[0] in ("start", "end", "msg", "tb")]
    n_got = sum(1 for r in S if not is_report(r.msg) and not is_own(r.msg))
    if n_got != len(emitted):
        raise Violation(("emission_mismatch", {"dir": "fewer" if n_got < len(emitted) else "more"}),
                        "reference destination was offered %d non-report messages, the threads' logging calls "
                        "emitted %d" % (n_got, len(emitted)))
    for d in rc.all_dests:
        if sorted(canon_msg(r.msg) for r in d.records) != sorted(canon_msg(r.msg) for r in S):
            raise Violation(("dest_sequence", {"kind": "multiset"}),
                            "destination %s was offered a different multiset of messages than the reference" % d.name)
        actors = sorted(set(r.actor for r in S))
        for a in actors:
            if [canon_msg(r.msg) for r in d.records if r.actor == a] != [canon_msg(r.msg) for r in S if r.actor == a]:
                raise Violation(("dest_sequence", {"kind": "thread_order"}),
                                "destination %s saw thread %s's messages in a different order" % (d.name, a))
    n_raised = sum(1 for d in rc.all_dests for o in d.records if o.raised is not None and not is_report(o.msg))
    n_reports = sum(1 for r in S if is_report(r.msg))
    if n_raised != n_reports:
        raise Violation(("report_count", {"dir": "more" if n_reports > n_raised else "fewer"}),
                        "%d raising offers of non-reports, %d reports" % (n_raised, n_reports))
