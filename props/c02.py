"""C02 -- every message is uniquely and contiguously placed by
task_uuid/task_level; what a healthy destination sees while others fail.

Worlds SEQ / THREADS (line pre-emption) / ASYNC.  Destinations: one tap plus
0-3 faulty destinations (``dest_raise`` masks).  The tap accepted everything,
so the placement invariants must hold on what it saw, with
``eliot:destination_failure`` reports counted as ordinary messages of
whichever action was current.
"""

from esim import prog as P
from esim.driver import Violation
from esim.run import RunCtx, Tap, FaultyDest, run_program
from . import base

ID = "C02"
QUICK_RUNS = 15000
THOROUGH_RUNS = 600000
LEVEL = "exploration"
RULE = ("one run = one generated program (no failing serializers) in a SEQ/THREADS/ASYNC world with a tap and "
        "0-3 destinations raising on a drawn mask of their calls; oracle on the tap's records: field types, "
        "run-wide uniqueness of (task_uuid, task_level), positions under every prefix exactly 1..n, start at 1, "
        "end at n for finished actions, children extend parents, first-use order == level order. distinct = "
        "distinct (program shape, schedule signature, fault counts); non-trivial = a fault fired, a context "
        "switch happened or depth >= 2.")
REAL = base.REAL
STUBS = base.STUBS
ASSUMPTIONS = ["positions reserved by preserve_context are exempt from the first-use ordering check (the remote "
               "side may start arbitrarily later and the reserved position is not observable before that)",
               "structured programs; every serialized task id is continued exactly once"]

MASKS = [("bernoulli", 0.3), ("always",), ("first", 2), ("every", 3), ("reports",), ("nonreports",),
         ("bernoulli", 0.05), ("never",)]


def prepare():
    base.prepare_common()
    base.monitoring()


def draw_cfg(st):
    world = ["seq", "threads", "async"][st.weighted([50, 30, 20], "world")]
    cfg = {
        "world": world,
        "wide": st.choose(4, "wide") == 3,
        # with failing destinations a report about the remote action's end message is logged in whatever
        # context the calling thread is left with; in a *copied* context that is the originating thread's
        # Action, used from two threads at once -- which eliot documents as unsupported -- so that
        # invocation style is not combined with destination faults
        "preserve_how": ["thread", "inline"],
        "max_ops": [10, 25, 45][st.choose(3, "size")],
        "max_depth": 2 + st.choose(5, "depth"),
        "value_depth": 0,
        "p_more": [0.8, 0.6, 0.9][st.choose(3, "p_more")],
        "p_catch": [0.5, 0.9, 0.1][st.choose(3, "p_catch")],
        "n_actors": 1,
        "check_context": False,
        "p_clock_jump": [0.0, 0.05][st.choose(2, "clockjump")],
        "finish_inside": True,
        "reserved_names": True,
        "w_reenter": st.choose(3, "reenter"),
        "exc": P.DEFAULT_EXC + ["ExtractMe", "ExtractSub"],
        "act_styles": [i for i in range(len(P.ACT_STYLES)) if i in (0, 1) or st.choose(2, "style-on")],
        "msg_apis": [0, 1, 2],
        "call_budget": 200000,
        "w_handler": st.choose(2, "handler"),
    }
    w_ops = [6, 6, 1, 1, 1, 0, 0]
    if world == "threads":
        cfg["n_actors"] = 2 + st.choose(3, "actors")
        cfg["p_switch"] = [0.1, 0.02, 0.3][st.choose(3, "p_switch")]
        cfg["gran"] = ["line", "op"][st.choose(2, "gran")]
        cfg["traced"] = ["_action.py", "_output.py"]
        cfg["spawn_kinds"] = ["thread", "remote", "preserve"]
        w_ops = [6, 6, 1, 1, 1, 1, 2]
        cfg["max_ops"] = min(cfg["max_ops"], 25)
    elif world == "async":
        cfg["n_actors"] = 1 + st.choose(3, "actors")
        cfg["spawn_kinds"] = ["task"]
        w_ops = [6, 6, 1, 1, 1, 3, 2]
    elif st.choose(3, "seq-remote") == 2:
        cfg["spawn_kinds"] = ["remote", "preserve"]
        w_ops = [6, 6, 1, 1, 1, 0, 1]
    cfg["w_ops"] = w_ops
    # an action's with block entered in one contextvars Context and left (generator close) from another,
    # after which the first Context logs again
    cfg["w_destop"] = st.choose(2, "xctx_leave")
    nf = st.weighted([3, 4, 2, 1], "n-faulty")
    cfg["faulty"] = [[list(MASKS[st.choose(len(MASKS), "mask")]), st.choose(6, "exc-kind"),
                      st.choose(2, "before-tap")] for _ in range(nf)]
    # exception extractors, some of them raising (their traceback is logged in whatever action is current)
    ex = []
    for _ in range(st.choose(3, "n-extractors")):
        cname = ["ExtractMe", "ValueError", "AppError", "OSError", "KeyError"][st.choose(5, "xcls")]
        if cname not in [c for c, _m in ex]:
            ex.append([cname, "raise" if st.choose(2, "xmode") else "fields"])
    cfg["extractors"] = ex
    return cfg


def op_xctx_leave(interp, op, env):
    """`with action:` inside a generator that is advanced in Context A and closed from Context B (another
    task's clean-up, a finalizer).  Unsupported as far as the generator goes -- the close may be refused and
    the action then never ends -- but whatever ends up in the log must still be placed consistently: if an end
    message is written, nothing logged afterwards by Context A (where the action is still current) may be
    numbered after it."""
    import contextvars
    rc = interp.rc
    e = rc.eliot

    def g():
        with e.start_task(action_type="x:entered-elsewhere"):
            yield 1

    gen = g()
    rc.live_gens.append(gen)
    ctx = contextvars.copy_context()
    ctx.run(next, gen)
    try:
        gen.close()
    except (ValueError, RuntimeError):
        rc.probe("foreign_close_refused")
    rc.probe("block_left_from_another_context")
    ctx.run(lambda: interp.api(("msg-x", 0), e.log_message, message_type="x:later"))


def setup(rc, interp):
    rc.custom_ops["destop"] = op_xctx_leave
    rc.tap = Tap(rc)
    before = []
    after = []
    rc.faulty = []
    for i, (mask, ek, bt) in enumerate(rc.cfg["faulty"]):
        d = FaultyDest(rc, "f%d" % i, tuple(mask), ek)
        rc.faulty.append(d)
        (before if bt else after).append(d)
    rc.eliot.add_destinations(*(before + [rc.tap] + after))
    rc.setup_extractors(rc.cfg.get("extractors", []))


def run_one(seed, dec):
    cfg = draw_cfg(dec.stream("cfg"))
    prog = P.generate(dec.stream("prog"), cfg)
    rc = RunCtx(ID, seed, dec, cfg)
    run_program(rc, prog, setup)
    if rc.violation is None:
        try:
            oracle(rc)
        except Violation as v:
            rc.fail_v(v)
    return base.result(rc, prog)


def oracle(rc):
    recs = rc.tap.records
    seen = {}
    by_prefix = {}      # (uuid, prefix tuple) -> {pos: first record}
    first_seq = {}      # (uuid, prefix, pos) -> min seq of anything at or below that position
    for r in recs:
        m = r.msg
        u = m.get("task_uuid")
        lvl = m.get("task_level")
        if not isinstance(u, str):
            raise Violation("bad_field", "task_uuid is %r" % (u,))
        if (not isinstance(lvl, list) or not lvl or
                not all(isinstance(i, int) and not isinstance(i, bool) and i >= 1 for i in lvl)):
            raise Violation("bad_field", "task_level is %r" % (lvl,))
        if not isinstance(m.get("timestamp"), float):
            raise Violation("bad_field", "timestamp is %r" % (m.get("timestamp"),))
        has_mt = "message_type" in m
        has_at = "action_type" in m
        if has_mt == has_at:
            raise Violation("bad_field", "message has %s" % (
                "both message_type and action_type" if has_mt else "neither message_type nor action_type"))
        if has_at and m.get("action_status") not in ("started", "succeeded", "failed"):
            raise Violation("bad_field", "action_status is %r" % (m.get("action_status"),))
        if has_mt and "action_status" in m:
            raise Violation("bad_field", "plain message carries action_status")
        key = (u, tuple(lvl))
        if key in seen:
            raise Violation("duplicate_level", "two messages share task_uuid/task_level %s %s: %r and %r" % (
                u, lvl, seen[key].msg, m))
        seen[key] = r
        # register this message under every ancestor prefix
        for d in range(len(lvl)):
            pk = (u, tuple(lvl[:d]))
            pos = lvl[d]
            fs = first_seq.setdefault(pk, {})
            if pos not in fs or r.seq < fs[pos]:
                fs[pos] = r.seq
        by_prefix.setdefault((u, tuple(lvl[:-1])), {})[lvl[-1]] = r

    # reserved positions: serialize_task_id -> (uuid, level) with the stamp of the reservation
    reserved_at = {}
    for tid, parent, rnode in rc.model.reserved:
        try:
            u, l = tid.decode("ascii").split("@")
            lv = tuple(int(x) for x in l.split("/") if x)
        except Exception:  # noqa
            raise Violation("bad_task_id", "serialize_task_id returned %r" % (tid,))
        if (u, lv) in reserved_at:
            raise Violation("duplicate_task_id", "serialize_task_id returned %r twice" % (tid,))
        reserved_at[(u, lv)] = rnode
    preserved_prefixes = set()
    for r in recs:
        c = r.call
        if c and isinstance(c[1], tuple) and c[1][0] == "preserved_call" and r.msg.get("action_status") == "started" \
                and r.msg.get("action_type") == "eliot:remote_task":
            preserved_prefixes.add((r.msg["task_uuid"], tuple(r.msg["task_level"][:-1])))

    for (u, prefix), fs in first_seq.items():
        n = max(fs)
        if set(fs) != set(range(1, n + 1)):
            missing = sorted(set(range(1, n + 1)) - set(fs))
            raise Violation("gap", "under %s %s positions %s are used but %s are missing" % (
                u, list(prefix), sorted(fs), missing))
        direct = by_prefix.get((u, prefix), {})
        # every position that has deeper messages is a child action with its own start at [.., i, 1]
        for pos in fs:
            if pos not in direct:
                st = seen.get((u, prefix + (pos, 1)))
                if st is None or st.msg.get("action_status") != "started":
                    raise Violation("orphan", "messages below %s %s but no start message at %s" % (
                        u, list(prefix + (pos,)), list(prefix + (pos, 1))))
        is_action = len(prefix) > 0 or (1 in direct and "action_type" in direct[1].msg)
        if is_action or len(direct) > 1 or n > 1:
            s1 = direct.get(1)
            if s1 is None or s1.msg.get("action_status") != "started":
                raise Violation("start_not_first", "position 1 under %s %s is %r" % (
                    u, list(prefix), s1.msg if s1 else None))
        # no other start/end among direct positions
        ends = [p for p, r in direct.items() if r.msg.get("action_status") in ("succeeded", "failed")]
        starts = [p for p, r in direct.items() if r.msg.get("action_status") == "started"]
        if len(starts) > 1 or len(ends) > 1:
            raise Violation("multiple_start_or_end", "under %s %s: starts at %s, ends at %s" % (
                u, list(prefix), starts, ends))
        if ends and ends[0] != n:
            after = direct.get(n) or seen.get((u, prefix + (n, 1)))
            end_rec = direct[ends[0]]
            attrs = {"after_end_type": (after.msg.get("message_type") or after.msg.get("action_type")) if after else "?"}
            node = _node_of_end(rc, end_rec)
            attrs["finish_while_current"] = bool(node is not None and node.finished_inside)
            attrs["about"] = "own_end_message" if (after is not None and after.call == end_rec.call) else "other"
            raise Violation(("end_not_last", attrs),
                            "under %s %s the end message is at %d but position %d is used (%r)" % (
                                u, list(prefix), ends[0], n, after.msg if after else None))
        # first-use order == level order
        last = -1
        for pos in range(1, n + 1):
            if (u, prefix + (pos,)) in reserved_at or (u, prefix + (pos,)) in preserved_prefixes:
                continue
            if fs[pos] <= last:
                raise Violation("order", "under %s %s position %d was first used (seq %d) before position %d" % (
                    u, list(prefix), pos, fs[pos], pos - 1))
            last = fs[pos]

    # model: every finished action's end message is the last position of its prefix -- done above for
    # every prefix that has an end; here: every finished model action *has* one.
    ends_by_call = {}
    for r in recs:
        if r.msg.get("action_status") in ("succeeded", "failed") and r.call:
            ends_by_call.setdefault(r.call[1], []).append(r)
    for a in rc.model.all_actions():
        if a.outcome is None or not a.started or a.nid is None:
            continue
        if a.nid is not None:
            labels = [("end", a.nid), ("call", a.nid)]
            if not any(l in ends_by_call for l in labels):
                raise Violation("end_missing", "finished action nid=%s has no end message at the tap" % a.nid)
    # reserved ids: the remote side logged under exactly the reserved position with the same uuid
    for (u, lv), rnode in reserved_at.items():
        if rnode.started:
            st = seen.get((u, lv + (1,)))
            if st is None or st.msg.get("nid") != rnode.nid or st.msg.get("action_status") != "started":
                raise Violation("remote_misplaced", "continue_task(%s@%s) did not start at that level: %r" % (
                    u, list(lv), st.msg if st else None))


def _node_of_end(rc, end_rec):
    c = end_rec.call
    if c and isinstance(c[1], tuple) and c[1][0] in ("end", "call", "refinish"):
        n = rc.model.by_nid.get(c[1][1])
        if n is not None and n.kind == "action":
            return n
    return None
