"""C19 -- the threaded writer passes every message on, in order, off-thread.

THREADS world with a stand-in for the two Twisted names logwriter.py imports
(Service; deferToThreadPool running the callable on a simulated pool thread).
1-3 producer threads log through the real Destinations -> ThreadedWriter;
the reader is the real ``_reader`` on a sim thread; the queue is a sim queue
that records put order; the wrapped destination raises on a drawn mask;
stopService is issued at a drawn step while producers may still be running;
1-3 start/stop cycles.
"""

import os
import sys

from esim import seams, sched as _sched
from esim.driver import Violation
from esim.run import RunCtx, Tap, FaultyDest
from esim.sched import Sched, SimAbort, SimQueue
from . import base
from .c02 import MASKS

ID = "C19"
QUICK_RUNS = 10000
THOROUGH_RUNS = 400000
LEVEL = "exploration"
RULE = ("one run = 1-3 start/stop cycles of one ThreadedWriter around a destination with a drawn failure mask; per "
        "cycle 1-3 producer threads log 1-6 messages each while the main thread issues stopService after a drawn "
        "number of steps; schedule drawn with pre-emption at every line of logwriter.py/_output.py and at every "
        "queue/thread operation. Oracle: calls to the wrapped destination == queue put order (raising calls "
        "included), all on the reader thread, everything offered before stopService delivered when its deferred "
        "fires, the deferred fires (deadlock detection), nothing delivered twice. distinct = distinct (cycle shapes, "
        "schedule signature, fault counts); non-trivial = >= 1 context switch while the queue was non-empty.")
REAL = ["eliot/logwriter.py (ThreadedWriter incl. _reader)", "eliot/_output.py (Destinations)", "eliot/_action.py",
        "real OS threads"]
STUBS = ["twisted.application.service.Service -> /verif/stubs (4 lines)",
         "twisted.internet.threads.deferToThreadPool -> sim pool actor + minimal deferred",
         "queue.SimpleQueue -> SimQueue (records put order)", "threading.Thread -> SimThread (sim actor)",
         "the wrapped destination -> FaultyDest", "scheduler decision (baton)"]
ASSUMPTIONS = ["Twisted is absent: Service and deferToThreadPool are stand-ins with the documented behaviour "
               "(startService/stopService toggle `running`; the deferred fires when the callable returns)",
               "messages offered concurrently with the stop may be delivered or not, never twice"]

STUBS_DIR = os.path.join(os.path.dirname(os.path.dirname(os.path.abspath(__file__))), "stubs")


def prepare():
    if STUBS_DIR not in sys.path:
        sys.path.append(STUBS_DIR)
    base.prepare_common()
    import eliot.logwriter  # noqa
    found = seams.install()
    # (how the writer queues and which thread primitives it uses is the implementation's business; what is
    # not re-bound simply runs on the real primitive)
    base.monitoring()
    _sched.enable_monitoring(seams.ELIOT_SRC.rstrip("/") + "/eliot", None)


class Reactor(object):
    def getThreadPool(self):
        return "the-pool"


def draw_cfg(st):
    n_cycles = 1 + st.choose(3, "cycles")
    cycles = []
    for _ in range(n_cycles):
        cycles.append({"producers": 1 + st.choose(3, "producers"),
                       "per": 1 + st.choose(6, "per"),
                       "stop_after": st.choose(12, "stop_after"),
                       "join_first": st.choose(3, "join_first") == 2})
    return {"world": "threads", "cycles": cycles,
            "p_switch": [0.1, 0.3, 0.03][st.choose(3, "p_switch")],
            "mask": list(MASKS[st.choose(len(MASKS), "mask")]), "exc": st.choose(6, "exc-kind"),
            "gran": ["line", "op"][st.choose(2, "gran")]}


def run_one(seed, dec):
    cfg = draw_cfg(dec.stream("cfg"))
    rc = RunCtx(ID, seed, dec, cfg)
    from eliot.logwriter import ThreadedWriter
    _STOP = None
    e = rc.eliot
    s = Sched(dec.stream("sched"), p_switch=cfg["p_switch"], gran=cfg["gran"], max_steps=600000,
              traced=["logwriter.py", "_output.py"])
    rc.sched = s
    rc.clock = seams.begin_run(seed)
    dest = FaultyDest(rc, "wrapped", tuple(cfg["mask"]), cfg["exc"])
    state = {"nid": 0}
    offered = {}        # nid -> (invoke stamp, return stamp)
    checks = []

    def producer(name, nids):
        def fn():
            for n in nids:
                inv = s.stamp()
                e.log_message(message_type="c19", nid=n, who=name)
                offered[n] = (inv, s.stamp())
                s.yield_point("between-logs")
        return fn

    def main():
        w = ThreadedWriter(dest, Reactor())
        rc.writer = w
        # the writer's queue, when it is one of the simulated queues, gives the exact order of arrival;
        # an implementation that queues some other way is judged by the invoke/return stamps of the offers
        q = getattr(w, "_queue", None)
        if not isinstance(q, SimQueue):
            q = None
            rc.probe("queue_not_observable")
        for ci, cyc in enumerate(cfg["cycles"]):
            w.startService()
            started = s.stamp()
            prods = []
            for p in range(cyc["producers"]):
                nids = list(range(state["nid"] + 1, state["nid"] + 1 + cyc["per"]))
                state["nid"] += cyc["per"]
                prods.append(s.spawn("P%d.%d" % (ci, p), producer("P%d.%d" % (ci, p), nids)))
            if cyc["join_first"]:
                for a in prods:
                    s.yield_point("join")
                    s.join(a)
            else:
                for _ in range(cyc["stop_after"]):
                    s.force_yield("main-wait")
            stop_inv = s.stamp()
            d = w.stopService()
            s.yield_point("join-pool")
            s.join(d.actor)
            fired = s.stamp()
            if not d.called:
                raise Violation("stop_not_completed", "stopService's deferred did not fire")
            if d.failure is not None:
                raise Violation(("stop_failed", {"exc": type(d.failure).__name__}),
                                "stopService's deferred failed: %r" % (d.failure,))
            # snapshot for the per-cycle check
            checks.append({"cycle": ci, "stop_inv": stop_inv, "fired": fired, "started": started,
                           "delivered": [r.msg.get("nid") for r in dest.records],
                           "puts": list(zip(q.put_stamps, q.put_log)) if q is not None else None,
                           "thread_alive": bool(getattr(w, "_thread", None) is not None and w._thread.is_alive())})
            for a in prods:
                s.yield_point("join")
                s.join(a)

    viol = None
    try:
        try:
            s.run_main(main)
        except SimAbort:
            pass
        except Violation as v:
            viol = v
        except _sched.HarnessError:
            raise
        except Exception as ex:  # noqa
            viol = Violation(("raised", {"exc": type(ex).__name__}), "the service raised %s: %s" % (type(ex).__name__, ex))
    finally:
        seams.end_run()
    try:
        if viol is not None:
            raise viol
        if s.deadlock:
            raise Violation("deadlock", "stopService never completed: %r" % (s.deadlock,))
        if s.abort:
            raise Violation("no_termination", "run aborted: %s" % s.abort)
        for a in s.actors:
            if a.exc is not None and not isinstance(a.exc, SimAbort):
                raise Violation(("raised", {"exc": type(a.exc).__name__}), "thread %s raised %r" % (a.name, a.exc))
        oracle(rc, cfg, dest, checks, offered, _STOP)
    except Violation as v:
        rc.fail_v(v)
    prog = {"world": "threads", "actors": [[]], "types": {}}
    shape = tuple((c["producers"], c["per"], c["join_first"]) for c in cfg["cycles"])
    res = base.result(rc, prog, nontrivial=bool(s.switches), distinct_extra=shape,
                      extra_stats={"cycles": len(cfg["cycles"]), "messages_offered": len(offered)})
    res["sample"] = {"cfg": cfg}
    return res


def oracle(rc, cfg, dest, checks, offered, STOP):
    # thread identity: only reader threads call the wrapped destination; one reader per cycle
    # (threads the service started itself, whatever it names them; never a producer, the caller of
    # start/stopService or the reactor's pool)
    own_threads = set(a.name for a in rc.sched.actors if "simthread" in a.data)
    for r in dest.records:
        if r.actor not in own_threads:
            raise Violation(("wrong_thread", {"thread": r.actor.split(".")[0].rstrip("0123456789#")}),
                            "the wrapped destination was called on thread %s" % r.actor)
    delivered_all = [r.msg.get("nid") for r in dest.records]
    seen = set()
    for n in delivered_all:
        if n in seen:
            raise Violation("duplicated", "message nid=%s was passed to the wrapped destination twice" % n)
        seen.add(n)
    prev = 0
    for c in checks:
        writers = sorted(set(r.actor for r in dest.records[prev:len(c["delivered"])]))
        prev = len(c["delivered"])
        if len(writers) > 1:
            raise Violation(("wrong_thread", {"thread": "several"}),
                            "cycle %d: the wrapped destination was called on %d different threads: %s" % (
                                c["cycle"], len(writers), writers))
        # messages in the order they were put on the queue (whatever else the implementation queues --
        # e.g. a stop marker -- is not a dict and is ignored)
        got = c["delivered"]
        if c["puts"] is None:
            # no observable queue: an offer that returned before another was invoked must be written first
            for j in range(len(got)):
                for i in range(j):
                    a, b = offered.get(got[i]), offered.get(got[j])
                    if a is not None and b is not None and len(b) > 1 and b[1] < a[0]:
                        raise Violation(("not_passed_on", {"how": "order"}),
                                        "cycle %d: message nid=%s was written before nid=%s although the latter's "
                                        "offer had returned before the former's was made" % (c["cycle"], got[i], got[j]))
            continue_ = True
        else:
            continue_ = False
        put_msgs = [(stamp, x.get("nid")) for stamp, x in (c["puts"] or []) if isinstance(x, dict)]
        order = [n for _s, n in put_msgs]
        if not continue_ and got != order[:len(got)]:
            n = min(len(got), len(order))
            i = next((k for k in range(n) if got[k] != order[k]), n)
            raise Violation(("not_passed_on", {"how": "order"}),
                            "cycle %d: the wrapped destination was called with %s, the queue received %s "
                            "(first difference at %d)" % (c["cycle"], got, order, i))
        # (queued before the stop request AND offered before it: an offer still in progress when
        # stopService is called is concurrent with the stop, the property leaves its fate open)
        before = [n for stamp, n in put_msgs if stamp < c["stop_inv"]
                  and n in offered and offered[n][1] < c["stop_inv"]]
        missing = [n for n in before if n not in got]
        if missing:
            raise Violation(("not_passed_on", {"how": "lost"}),
                            "cycle %d: when stopService's deferred fired the wrapped destination had been called "
                            "with %s; queued before the stop request but not written: %s" % (c["cycle"], got, missing))
        # (whether the reader thread object is still alive at that instant is not part of the property: a
        # writer that signals completion from the thread just before it returns is as good)
        # everything whose __call__ returned before stopService was invoked is among them
        for n, (inv, ret) in offered.items():
            if inv > c["started"] and ret < c["stop_inv"] and n not in got:
                raise Violation(("not_passed_on", {"how": "offered_before_stop"}),
                                "cycle %d: message nid=%s was offered (returned at %d) before stopService (%d) but "
                                "not written when it completed" % (c["cycle"], n, ret, c["stop_inv"]))
    # per-producer order
    by = {}
    for r in dest.records:
        by.setdefault(r.msg.get("who"), []).append(r.msg.get("nid"))
    for who, seq in by.items():
        if seq != sorted(seq):
            raise Violation("producer_order", "messages of %s were written as %s" % (who, seq))
    # a raising call loses only that message: implied by got == before (raising calls are recorded offers)
