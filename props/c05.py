"""C05 -- no action context leaks between threads / coroutines, for every
interleaving.

THREADS world (2-5 actor threads, pre-emption at logging-call boundaries or at
every eliot source line) and ASYNC world (tasks interleaved at awaits by drawn
delays).  Online: after every op, in the actor that executed it,
current_action() is exactly that actor's model top (a new thread starts with
none, a new task with its creator's).  Afterwards: merged tap messages parse
into the model forest.  Schedule independence: some programs are re-executed
under further decision streams; the canonical parsed forest (siblings sorted,
uuids/levels/timestamps removed) must be identical.
"""

from esim import prog as P
from esim import oracles as O
from esim.driver import Violation
from esim.run import RunCtx, Tap, run_program
from . import base

ID = "C05"
QUICK_RUNS = 10000
THOROUGH_RUNS = 400000
LEVEL = "exploration"
RULE = ("one run = one structured concurrent program (threads spawning threads / preserve_context / "
        "serialize+continue_task, or asyncio tasks spawning tasks) executed under one seeded interleaving; "
        "10% of programs are re-executed under 3 more interleavings and the canonical forests compared; 8% run with a "
        "destination failing for messages chosen by content, also under 4 interleavings, reports included in the comparison. "
        "distinct = distinct (program shape, schedule signature); non-trivial = >= 1 context switch "
        "(threads) or >= 2 concurrently live tasks with pauses (async).")
REAL = base.REAL
STUBS = base.STUBS
ASSUMPTIONS = ["programs are structured: a body joins what it spawned before its action ends",
               "pre-emption at Python line boundaries inside eliot's frames and at every sim primitive; C code is atomic (GIL)"]


def prepare():
    base.prepare_common()
    base.monitoring()


def draw_cfg(st):
    world = ["threads", "async"][st.weighted([60, 40], "world")]
    cfg = {
        "world": world,
        "max_ops": [12, 25, 40][st.choose(3, "size")],
        "max_depth": 2 + st.choose(4, "depth"),
        "value_depth": 0,
        "p_more": [0.8, 0.6, 0.9][st.choose(3, "p_more")],
        "p_catch": [0.5, 0.9][st.choose(2, "p_catch")],
        "check_context": True,
        "msg_apis": [0, 1],
        "act_styles": [i for i in range(len(P.ACT_STYLES)) if i in (0,) or st.choose(2, "style-on")],
        "p_clock_jump": [0.0, 0.05][st.choose(2, "clockjump")],
        "resched": st.choose(10, "resched") == 9,
        "w_reenter": st.choose(3, "reenter"),
        "join_after_scope": True,
        "orphans": True,
        "foreign_finish": bool(st.choose(2, "foreign_finish")),
        # schedule independence with a destination that fails for some messages (chosen by content, so the
        # same ones in every interleaving): the failure reports are messages too and belong to the action
        # current in the thread whose message failed
        "fault_resched": st.choose(12, "fault_resched") == 11,
    }
    if world == "threads":
        cfg["n_actors"] = 2 + st.choose(4, "actors")
        cfg["p_switch"] = [0.1, 0.02, 0.3, 0.5][st.choose(4, "p_switch")]
        cfg["gran"] = ["line", "op"][st.choose(2, "gran")]
        cfg["spawn_kinds"] = ["thread", "remote", "preserve"]
        cfg["w_ops"] = [6, 6, 0, 0, 1, 2, 2]
    else:
        cfg["n_actors"] = 1 + st.choose(4, "actors")
        cfg["spawn_kinds"] = ["task"]
        # (no add_success_fields ops: two tasks setting the same success field of an action they share is a race
        # of the PROGRAM -- last writer wins -- and would make the forests differ between schedules for a
        # reason that has nothing to do with eliot; seen once in 400 000 thorough runs)
        cfg["w_ops"] = [6, 6, 0, 0, 1, 5, 3]
        # several tasks inside the same (inherited) action's context()/run() at once
        cfg["w_reenter"] = [0, 3, 6][st.choose(3, "reenter-async")]
        cfg["shared_root"] = st.choose(3, "shared-root") == 2
        if cfg["shared_root"]:
            cfg["w_reenter"] = 6
    return cfg


REPORT = "eliot:destination_failure"


def setup(rc, interp):
    rc.tap = Tap(rc)
    if rc.cfg.get("fault_resched"):
        k = 2 + rc.seed % 3

        def flaky(message):
            n = message.get("nid")
            if isinstance(n, int) and n % k == 0 and message.get("message_type") != REPORT:
                rc.count_fault("dest_raise")
                raise RuntimeError("flaky destination, nid=%d" % n)
        rc.eliot.add_destinations(flaky, rc.tap)
    else:
        rc.eliot.add_destinations(rc.tap)


def _mask_reports(msgs):
    out = []
    for m in msgs:
        if m.get("message_type") == REPORT:
            m = dict(m, message="<rendering>")
        out.append(m)
    return out


def one(seed, dec, cfg, prog):
    rc = RunCtx(ID, seed, dec, cfg)
    run_program(rc, prog, setup)
    msgs = [r.msg for r in rc.tap.records]
    if rc.violation is None and cfg.get("fault_resched"):
        msgs = _mask_reports(msgs)
    elif rc.violation is None:
        try:
            O.account(msgs, rc.model, lenient=True, ends=False)
            O.check_forest(msgs, rc.model, order_free=False, lenient=True, fields=False, require_complete=False,
                           status=False)
        except Violation as v:
            rc.fail_v(v)
    return rc, msgs


def run_one(seed, dec):
    cfg = draw_cfg(dec.stream("cfg"))
    prog = P.generate(dec.stream("prog"), cfg)
    rc, msgs = one(seed, dec, cfg, prog)
    extra = {"reschedules": 0}
    if rc.violation is None and (cfg["resched"] or cfg["fault_resched"]):
        base_forest = O.canonical_forest(msgs)
        for k in range(1, 4):
            cfg2 = dict(cfg, sched_stream="sched%d" % k)
            rc2, msgs2 = one(seed, dec, cfg2, prog)
            extra["reschedules"] += 1
            if rc2.violation is not None:
                rc.violation = rc2.violation
                break
            if O.canonical_forest(msgs2) != base_forest:
                rc.fail("schedule_dependent", "the parsed forest differs between two interleavings of the same program")
                break
    live = rc.info.get("loop_iterations", 0)
    nontrivial = bool(rc.sched.switches) if cfg["world"] == "threads" else (rc.pauses > 0 and len(prog["actors"]) + sum(1 for _ in _spawns(prog)) >= 2)
    return base.result(rc, prog, nontrivial=nontrivial, extra_stats=extra,
                       distinct_extra=(rc.pauses, rc.info.get("virtual_time")))


def _spawns(prog):
    def walk(ops):
        for op in ops:
            if op["op"] == "spawn":
                yield op
            if "body" in op:
                for x in walk(op["body"]):
                    yield x
    for a in prog["actors"]:
        for x in walk(a):
            yield x
