"""C12 -- startup buffering and (un)registration lose and duplicate nothing.

SEQ: histories of log / add_destinations / remove_destination /
add_global_fields (incl. > 1000 buffered messages, several destinations per
call) against an exact model.  THREADS: one or two logging threads race the
thread performing the *first* add_destinations, pre-empted at every source line
of the output layer; no message whose logging call returned may be lost or
duplicated across the hand-over.
"""

from esim import seams, sched as _sched
from esim.driver import Violation, Unwind
from esim.run import RunCtx, Tap, run_program
from esim.sched import Sched, SimAbort
from esim.values import canon
from . import base

ID = "C12"
QUICK_RUNS = 12000
THOROUGH_RUNS = 500000
LEVEL = "exploration"
RULE = ("SEQ run = one generated history of 5-60 log/add/remove/global-field operations (15% with 1001-1300 "
        "messages buffered before the first add) checked against an exact model of buffering and registration; "
        "THREADS run = 1-2 logging threads x the thread doing the first add_destinations, pre-empted at every line "
        "of _output.py under a seeded schedule; oracle: every message whose call returned is received exactly once "
        "by every first-call destination, per-thread order kept. distinct = distinct (history shape | schedule "
        "signature); non-trivial = history has an add after >= 1 buffered message, or >= 1 context switch.")
REAL = ["eliot/_output.py (Destinations, BufferingDestination, Logger)", "eliot/_action.py (log_message)", "real OS threads"]
STUBS = base.STUBS
ASSUMPTIONS = ["destinations are healthy here (faulty ones are C08's)",
               "ordering between a message logged concurrently with the hand-over and the buffered backlog is not constrained",
               "a single thread performs the first add_destinations"]

GKEYS = ["g0", "g1", "g2"]


def prepare():
    base.prepare_common()
    base.monitoring()


# ------------------------------------------------------------------ SEQ world
REPORT = "eliot:destination_failure"


def gen_history(st, cfg):
    ops = []
    nid = [0]
    ndest = [0]
    live = set()

    def log():
        nid[0] += 1
        return ["log", nid[0]]

    n = cfg["n_ops"]
    if cfg["bulk"]:
        k = 1001 + st.choose(300, "bulk-n")
        ops.append(["bulk", nid[0] + 1, k])
        nid[0] += k
    for _ in range(n):
        k = st.weighted([6, 3, 2, 2], "hop")
        if k == 0:
            ops.append(log())
        elif k == 1:
            m = 1 + st.choose(3, "n-add")
            ids = []
            for _j in range(m):
                # (a destination is registered again only after it has been removed: what registering one
                # that is registered already means -- a second registration or nothing -- is not stated)
                gone = [d for d in range(ndest[0]) if d not in live and d not in ids]
                if gone and st.choose(4, "re-add") == 3:
                    ids.append(gone[st.choose(len(gone), "which")])
                else:
                    ids.append(ndest[0])
                    ndest[0] += 1
            live.update(ids)
            ops.append(["add", ids])
        elif k == 2:
            w = st.choose(max(1, ndest[0]), "which")
            live.discard(w)
            ops.append(["remove", w])
        else:
            g = {}
            for _j in range(1 + st.choose(2, "n-g")):
                g[GKEYS[st.choose(3, "gkey")]] = st.choose(5, "gval")
            ops.append(["globals", g])
    return ops


def run_seq(rc, ops):
    e = rc.eliot
    cfg = rc.cfg
    taps = {}
    expect = {}
    buffer = []
    registered = []
    state = {"any": False}
    g = {}

    class ReTap(Tap):
        """A first-call destination that registers one more destination the first time it is called."""
        armed = False

        def __call__(self_, message):
            Tap.__call__(self_, message)
            if self_.armed:
                self_.armed = False
                rc.probe("destination_added_from_inside_a_destination")
                state["extra_at"] = state["logged"]
                e.add_destinations(tap("extra"))

    class FlakyTap(Tap):
        calls = 0

        def __call__(self_, message):
            Tap.__call__(self_, message)
            self_.calls += 1
            fl = cfg["flaky"]
            if fl[1] < self_.calls <= fl[1] + fl[2] and message.get("message_type") != REPORT:
                rc.count_fault("dest_raise")
                raise RuntimeError("transient outage of d%s" % fl[0])

    def tap(i):
        if i not in taps:
            cls = ReTap if (i == state.get("retap")) else Tap
            if cfg.get("flaky") and cfg["flaky"][0] == i and cls is Tap:
                cls = FlakyTap
            taps[i] = cls(rc, "d%s" % i, deep=True)
            expect[i] = []
        return taps[i]

    def model_log(n):
        state["logged"] = state.get("logged", 0) + 1
        if "extra_reg" in state:
            expect["extra"].append((n, dict(g)))
        if not state["any"]:
            buffer.append(n)
            while len(buffer) > 1000:
                buffer.pop(0)
        else:
            for d in registered:
                expect[d].append((n, dict(g)))

    def main():
        for op in ops:
            k = op[0]
            if k == "log":
                model_log(op[1])
                e.log_message(message_type="c12", nid=op[1])
            elif k == "bulk":
                for n in range(op[1], op[1] + op[2]):
                    model_log(n)
                    e.log_message(message_type="c12", nid=n)
                rc.probe("bulk_over_1000")
            elif k == "add":
                if not state["any"] and buffer and cfg.get("reentrant_add"):
                    # its first call happens inside the hand-over: the destination it registers there was
                    # added later than every buffered message and must get none of them
                    state["retap"] = op[1][0]
                ds = [tap(i) for i in op[1]]
                if state.get("retap") is not None and not state["any"]:
                    ds[0].armed = True
                    tap("extra")
                    state["extra_reg"] = True
                if not state["any"]:
                    state["any"] = True
                    registered.extend(op[1])
                    if buffer:
                        rc.probe("handover_with_backlog")
                    for n in buffer:
                        for d in registered:
                            expect[d].append((n, dict(g)))
                    del buffer[:]
                else:
                    registered.extend(op[1])
                e.add_destinations(*ds)
            elif k == "remove":
                if op[1] in registered:
                    registered.remove(op[1])
                    e.remove_destination(taps[op[1]])
                    rc.probe("removed")
            elif k == "globals":
                g.update(op[1])
                e.add_global_fields(**op[1])

    s = Sched(rc.dec.stream("sched"), max_steps=10 ** 7)
    rc.sched = s
    rc.clock = seams.begin_run(rc.seed)
    try:
        try:
            s.run_main(main)
        except SimAbort:
            raise Violation("no_termination", "run aborted: %s" % s.abort)
        except Violation:
            raise
        except Exception as ex:  # noqa
            raise Violation(("raised", {"exc": type(ex).__name__}),
                            "a logging / registration call raised %s: %s" % (type(ex).__name__, str(ex)[:300]))
    finally:
        seams.end_run()
    for i, t in sorted(taps.items(), key=lambda kv: str(kv[0])):
        got = [(r.msg.get("nid"), r.msg) for r in t.records if r.msg.get("nid") is not None]
        want = expect[i]
        gn = [n for n, _m in got]
        wn = [n for n, _g in want]

        def by_rank(seq):
            # a destination registered k times is k registrations: each gets the messages in order, how the
            # k deliveries of one message interleave with those of the next is not stated.  Compare the
            # sequence of first deliveries, of second deliveries, ... separately.
            seen_, ranks = {}, {}
            for x in seq:
                j = seen_.get(x, 0)
                seen_[x] = j + 1
                ranks.setdefault(j, []).append(x)
            return ranks
        if gn != wn and len(set(wn)) != len(wn) and sorted(gn, key=str) == sorted(wn, key=str) \
                and by_rank(gn) == by_rank(wn):
            rc.probe("same_destination_registered_twice")
            # align the global-field expectations with the order actually used
            order_w = {}
            for j, (n_, gl_) in enumerate(want):
                order_w.setdefault(n_, []).append(gl_)
            want = [(n_, order_w[n_].pop(0)) for n_ in gn]
            wn = gn
        if gn != wn:
            k2 = next((j for j in range(min(len(gn), len(wn))) if gn[j] != wn[j]), min(len(gn), len(wn)))
            how = "lost" if len(gn) < len(wn) else ("extra" if len(gn) > len(wn) else "order")
            raise Violation(("delivery", {"how": how}),
                            "destination d%s received %d messages, expected %d; first difference at index %d: "
                            "got nid %s, expected nid %s" % (i, len(gn), len(wn), k2,
                                                             gn[k2] if k2 < len(gn) else None,
                                                             wn[k2] if k2 < len(wn) else None))
        for (n, m), (_n, gl) in zip(got, want):
            for key, val in gl.items():
                if key not in m or canon(m[key]) != canon(val):
                    raise Violation("global_fields", "message nid=%s delivered to d%s with %s=%r, global fields "
                                    "at delivery were %r" % (n, i, key, m.get(key), gl))


# -------------------------------------------------------------- THREADS world
def run_threads(rc, cfg):
    e = rc.eliot
    st = rc.dec.stream("sched")
    s = Sched(st, p_switch=cfg["p_switch"], gran="line", max_steps=400000, traced=["_output.py"])
    rc.sched = s
    rc.clock = seams.begin_run(rc.seed)
    class FlakyFirst(Tap):
        calls = 0

        def __call__(self_, message):
            Tap.__call__(self_, message)
            self_.calls += 1
            a, n = cfg["flaky_first"]
            if a < self_.calls <= a + n and message.get("message_type") != REPORT:
                rc.count_fault("dest_raise")
                raise RuntimeError("transient outage of %s" % self_.name)

    taps = [Tap(rc, "first%d" % i, deep=True) for i in range(cfg["n_first"])]
    if cfg.get("flaky_first"):
        taps[0] = FlakyFirst(rc, "first0", deep=True)
    early = {}
    phase2 = {}
    returned = {}          # nid -> stamp at which the logging call returned
    started = {}
    add_done = {}
    per_thread = {}

    in_call = {}
    gstate = {}

    def logger(name, nids):
        per_thread[name] = nids

        def fn():
            for n in nids:
                started[n] = s.stamp()
                in_call[name] = n
                e.log_message(message_type="c12", nid=n)
                in_call[name] = None
                returned[n] = s.stamp()
                s.yield_point("between-logs")
        return fn

    def gthread():
        from esim.sched import BLOCKED
        for _ in range(cfg["g_delay"]):
            s.force_yield("g-wait")
        for _ in range(30):
            parked = [in_call[a.name] for a in s.actors if a.name in in_call and in_call[a.name] is not None
                      and a.state == BLOCKED]
            if parked:
                break
            s.force_yield("g-wait-for-parked")
        gstate["parked"] = list(parked)
        if parked:
            rc.probe("global_field_set_while_a_logger_is_parked_in_the_buffer")
        gstate["start"] = s.stamp()
        e.add_global_fields(c12g=1)
        # (only those still parked now: a logger that got going again while the field was being set races with it)
        still = [in_call[a.name] for a in s.actors if a.name in in_call and in_call[a.name] is not None
                 and a.state == BLOCKED]
        gstate["parked"] = [n for n in gstate["parked"] if n in still]
        gstate["done"] = s.stamp()

    def adder():
        for _ in range(cfg["adder_delay"]):
            s.force_yield("adder-wait")
        add_done["start"] = s.stamp()
        e.add_destinations(*taps)
        add_done["end"] = s.stamp()
        if cfg.get("early_remove") and len(taps) >= 2:
            rc.probe("first_call_destination_removed_right_after_add")
            e.remove_destination(taps[-1])
            early["removed"] = taps[-1]
            early["at"] = s.stamp()

    def main():
        nid = 0
        pre = list(range(1, cfg["pre"] + 1))
        nid = cfg["pre"]
        for n in pre:
            started[n] = s.stamp()
            e.log_message(message_type="c12", nid=n)
            returned[n] = s.stamp()
        per_thread["pre"] = pre
        actors = []
        for i in range(cfg["n_loggers"]):
            nids = list(range(nid + 1, nid + 1 + cfg["per_logger"]))
            nid += cfg["per_logger"]
            actors.append(s.spawn("L%d" % i, logger("L%d" % i, nids)))
        actors.append(s.spawn("adder", adder))
        if cfg.get("globals_thread"):
            actors.append(s.spawn("G", gthread))
        for a in actors:
            s.yield_point("join")
            s.join(a)
        if cfg.get("phase2") and len(taps) >= 2 and not cfg.get("early_remove"):
            # registration changes from two threads at once: neither may be lost
            rc.probe("concurrent_add_and_remove")
            late = Tap(rc, "late", deep=True)
            phase2["late"] = late
            phase2["removed"] = taps[0]
            ra = s.spawn("remover", lambda: e.remove_destination(taps[0]))
            aa = s.spawn("adder2", lambda: e.add_destinations(late))
            for a in (ra, aa):
                s.yield_point("join")
                s.join(a)
            phase2["marker"] = 10 ** 6
            e.log_message(message_type="c12", nid=phase2["marker"])

    try:
        try:
            s.run_main(main)
        except SimAbort:
            pass
    finally:
        seams.end_run()
    if s.deadlock:
        raise Violation("deadlock", "deadlock: %r" % (s.deadlock,))
    if s.abort:
        raise Violation("no_termination", "run aborted: %s" % s.abort)
    for a in s.actors:
        if a.exc is not None:
            raise Violation(("raised", {"exc": type(a.exc).__name__}),
                            "thread %s raised %r" % (a.name, a.exc))
    if phase2:
        mk = phase2["marker"]
        for t in taps[1:] + [phase2["late"]]:
            if [r.msg.get("nid") for r in t.records].count(mk) != 1:
                raise Violation(("registration_lost", {"which": "added" if t is phase2["late"] else "kept"}),
                                "after a concurrent remove_destination/add_destinations, destination %s did not "
                                "receive the next message exactly once" % t.name)
        if mk in [r.msg.get("nid") for r in phase2["removed"].records]:
            raise Violation(("registration_lost", {"which": "removed"}), "the removed destination still received a message")
        for t in taps + [phase2["late"]]:
            t.records[:] = [r for r in t.records if r.msg.get("nid") != mk]
    if gstate.get("done") is not None:
        # every delivered message carries the global fields set before its delivery: certainly those whose
        # logging call began after the field was set, and those that were parked in the start-up buffer when
        # it was set (they are delivered afterwards); a call in progress elsewhere at that moment is concurrent
        for t in taps:
            for r in t.records:
                n = r.msg.get("nid")
                if n is None or n not in started or r.seq < gstate["done"]:
                    continue
                if (started[n] > gstate["done"] or n in gstate["parked"]) and r.msg.get("c12g") != 1:
                    raise Violation(("global_fields", {"world": "threads"}),
                                    "message nid=%s was delivered to %s at %d without the global field set at "
                                    "%d..%d (%s)" % (n, t.name, r.seq, gstate["start"], gstate["done"],
                                                     "it was parked in the start-up buffer then" if n in gstate["parked"]
                                                     else "its logging call began at %d" % started[n]))
    if early:
        t = early["removed"]
        # (a message that was already on its way through the destinations when the removal happened is
        # concurrent with it, outside the statement; one whose delivery had not begun anywhere is not)
        first_offer = {}
        for t2 in taps:
            for r in t2.records:
                n = r.msg.get("nid")
                first_offer[n] = min(first_offer.get(n, r.seq), r.seq)
        late_ = [r for r in t.records if r.seq > early["at"] and r.msg.get("nid") is not None
                 and first_offer[r.msg.get("nid")] > early["at"]]
        if late_:
            raise Violation("delivered_after_remove", "destination %s was removed at %d and was still called at %d "
                            "with nid=%s" % (t.name, early["at"], late_[0].seq, late_[0].msg.get("nid")))
    for t in taps:
        if early and t is early["removed"]:
            continue
        got = [r.msg.get("nid") for r in t.records if r.msg.get("nid") is not None]
        counts = {}
        for n in got:
            counts[n] = counts.get(n, 0) + 1
        for n in sorted(returned):
            c = counts.get(n, 0)
            if c == 0:
                w = "before_add" if returned[n] < add_done["start"] else (
                    "after_add" if started[n] > add_done["end"] else "handover")
                raise Violation(("lost", {"window": w}),
                                "message nid=%d (call started at %d, returned at %d; add ran %d..%d) never reached "
                                "destination %s" % (n, started[n], returned[n], add_done["start"], add_done["end"], t.name))
            if c > 1:
                raise Violation("duplicated", "message nid=%d reached destination %s %d times" % (n, t.name, c))
        for name, nids in per_thread.items():
            seq = [n for n in got if n in set(nids)]
            if seq != sorted(seq):
                raise Violation("thread_order", "destination %s saw thread %s's messages as %s" % (t.name, name, seq))
        # messages whose call started after add returned come after the whole backlog
        backlog = [n for n in got if returned[n] < add_done["start"]]
        late = [n for n in got if started[n] > add_done["end"]]
        if backlog and late:
            last_backlog = max(i for i, n in enumerate(got) if returned[n] < add_done["start"])
            first_late = min(i for i, n in enumerate(got) if started[n] > add_done["end"])
            if first_late < last_backlog:
                raise Violation("backlog_order", "a message logged after add_destinations returned was delivered "
                                "before buffered ones at %s" % t.name)


def draw_cfg(st):
    world = ["seq", "threads"][st.weighted([55, 45], "world")]
    cfg = {"world": world}
    if world == "seq":
        cfg["n_ops"] = 5 + st.choose(56, "n_ops")
        cfg["bulk"] = st.choose(7, "bulk") == 6
        cfg["reentrant_add"] = st.choose(4, "reentrant_add") == 3
        # a destination with a transient outage: raises on calls a .. a+n-1 (it still counts as offered)
        cfg["flaky"] = [st.choose(3, "flaky-dest"), st.choose(6, "flaky-from"), 1 + st.choose(5, "flaky-len")] \
            if st.choose(4, "flaky") == 3 else None
    else:
        cfg["n_loggers"] = 1 + st.choose(2, "n_loggers")
        cfg["per_logger"] = 1 + st.choose(5, "per_logger")
        cfg["pre"] = st.choose(4, "pre")
        cfg["n_first"] = 1 + st.choose(2, "n_first")
        cfg["adder_delay"] = st.choose(4, "adder_delay")
        cfg["p_switch"] = [0.15, 0.05, 0.4][st.choose(3, "p_switch")]
        cfg["phase2"] = bool(st.choose(2, "phase2"))
        # a first-call destination that raises on a window of its calls (reports get logged during the replay)
        cfg["flaky_first"] = [st.choose(3, "ff-from"), 1 + st.choose(3, "ff-len")] if st.choose(3, "flaky_first") == 2 else None
        # the adding thread removes one of the first-call destinations again as soon as add_destinations returns
        cfg["early_remove"] = st.choose(4, "early_remove") == 3
        # a thread that sets a global field while the hand-over is going on (preferably while a logger is
        # parked in the start-up buffer)
        cfg["globals_thread"] = st.choose(3, "globals_thread") == 2
        cfg["g_delay"] = st.choose(6, "g_delay")
    return cfg


def run_one(seed, dec):
    cfg = draw_cfg(dec.stream("cfg"))
    rc = RunCtx(ID, seed, dec, cfg)
    ops = None
    try:
        if cfg["world"] == "seq":
            ops = gen_history(dec.stream("prog"), cfg)
            run_seq(rc, ops)
        else:
            run_threads(rc, cfg)
    except Violation as v:
        rc.fail_v(v)
    prog = {"world": cfg["world"], "actors": [[]], "types": {}}
    shape = tuple((o[0], len(o[1]) if o[0] == "add" else (o[2] > 1000 if o[0] == "bulk" else 0)) for o in ops) if ops else None
    nontrivial = bool(rc.sched.switches) if cfg["world"] == "threads" else bool(
        rc.probes.get("handover_with_backlog") or rc.probes.get("removed"))
    res = base.result(rc, prog, nontrivial=nontrivial, distinct_extra=shape)
    res["sample"] = {"cfg": cfg, "history": (ops if ops and len(ops) < 80 else (ops[:40] if ops else None))}
    return res
