"""C17 -- the test helpers reconstruct the same action tree as the parser.

The helpers are pure functions of a message list; the simulator contributes
the lists -- SEQ, THREADS and ASYNC runs captured by one MemoryLogger installed
as the default logger, which interleave several tasks and remote sub-tasks in
one list -- and a differential oracle over the recorded history (helpers vs
Parser vs reference model).  No fault is involved.
"""

import unittest

from esim import prog as P
from esim import oracles as O
from esim.driver import Violation
from esim.run import RunCtx, run_program
from . import base

ID = "C17"
QUICK_RUNS = 8000
THOROUGH_RUNS = 300000
LEVEL = "exploration"
RULE = ("one run = one generated program (repeated and equal action types at different depths, failed actions, "
        "remote sub-tasks, several tasks) executed in a SEQ/THREADS/ASYNC world into one MemoryLogger; for every "
        "action/message type in the run LoggedAction.of_type / LoggedMessage.of_type / descendants / type_tree are "
        "compared with the model and, node for node, with Parser output on the same list; assertHasAction / "
        "assertHasMessage are called with drawn expectations (true subsets and one-field perturbations). distinct = "
        "distinct (program shape, schedule signature); non-trivial = depth >= 2 or >= 2 tasks or a remote sub-task.")
REAL = base.REAL + ["eliot/testing.py", "MemoryLogger as default logger (swap_logger)"]
STUBS = base.STUBS
ASSUMPTIONS = ["post-run history check, fault-free runs whose actions all finished"]


def prepare():
    base.prepare_common()
    base.monitoring()


def draw_cfg(st):
    world = ["seq", "threads", "async"][st.weighted([50, 30, 20], "world")]
    cfg = {
        "world": world,
        "wide": st.choose(4, "wide") == 3,
        "late_remote": True,
        "max_ops": [8, 18, 35][st.choose(3, "size")],
        "max_depth": 1 + st.choose(5, "depth"),
        "value_depth": 0,
        "p_more": [0.8, 0.6, 0.9][st.choose(3, "p_more")],
        "p_catch": [0.5, 0.9][st.choose(2, "p_catch")],
        "n_actors": 1,
        "check_context": False,
        "act_styles": [i for i in range(len(P.ACT_STYLES)) if i in (0, 3) or st.choose(2, "style-on")],
        "msg_apis": [0, 1, 2],
        "w_ops": [5, 7, 0, 1, 1, 0, 0],
    }
    if world == "threads":
        cfg["n_actors"] = 1 + st.choose(3, "actors")
        cfg["p_switch"] = [0.1, 0.3][st.choose(2, "p_switch")]
        cfg["gran"] = "op"
        cfg["spawn_kinds"] = ["thread", "remote", "preserve"]
        cfg["w_ops"] = [5, 7, 0, 1, 1, 1, 2]
        cfg["max_ops"] = min(cfg["max_ops"], 20)
    elif world == "async":
        cfg["n_actors"] = 1 + st.choose(3, "actors")
        cfg["spawn_kinds"] = ["task"]
        cfg["w_ops"] = [5, 7, 0, 1, 1, 3, 2]
    elif st.choose(2, "seq-remote"):
        cfg["spawn_kinds"] = ["remote", "preserve"]
        cfg["w_ops"] = [5, 7, 0, 1, 1, 0, 2]
    return cfg


def setup(rc, interp):
    from eliot.testing import swap_logger
    rc.mlogger = rc.eliot.MemoryLogger()
    swap_logger(rc.mlogger)


def run_one(seed, dec):
    cfg = draw_cfg(dec.stream("cfg"))
    prog = P.generate(dec.stream("prog"), cfg)
    rc = RunCtx(ID, seed, dec, cfg)
    run_program(rc, prog, setup)
    if rc.violation is None:
        try:
            oracle(rc, dec.stream("expect"))
        except Violation as v:
            rc.fail_v(v)
    _n, depth = P.count_ops(prog)
    nontrivial = depth >= 2 or len(rc.model.roots) >= 2 or bool(rc.model.reserved)
    return base.result(rc, prog, nontrivial=nontrivial)


def oracle(rc, st):
    from eliot.parse import Parser, WrittenAction, WrittenMessage
    from eliot.testing import LoggedAction, LoggedMessage, assertHasAction, assertHasMessage
    msgs = rc.mlogger.messages
    index = {id(m): i for i, m in enumerate(msgs)}
    pos = {}
    for i, m in enumerate(msgs):
        pos[(m["task_uuid"], tuple(m["task_level"]))] = i
    O.account(msgs, rc.model, lenient=True, ends=False)
    # (a MemoryLogger stores messages unserialized, so field contents are not compared with the model here)
    tasks = list(Parser.parse_stream(msgs))
    written = {}         # (uuid, prefix) -> WrittenAction

    def walk(n):
        if isinstance(n, WrittenAction):
            written[(n.task_uuid, tuple(n.task_level.as_list()))] = n
            for c in n.children:
                walk(c)
    for t in tasks:
        walk(t.root())

    def first_index(n):
        if isinstance(n, WrittenAction):
            return pos[(n.task_uuid, tuple(n.start_message.task_level.as_list()))]
        return pos[(n.task_uuid, tuple(n.task_level.as_list()))]

    def compare(la, wa, where):
        if not isinstance(la, LoggedAction):
            raise Violation("helper_tree", "%s: helper has %r where the parser has an action" % (where, la))
        if dict(wa.start_message.as_dict()) != la.start_message or la.start_message is not la.startMessage:
            raise Violation("helper_tree", "%s: start message differs: %r vs %r" % (
                where, la.start_message, dict(wa.start_message.as_dict())))
        if dict(wa.end_message.as_dict()) != la.end_message or la.end_message is not la.endMessage:
            raise Violation("helper_tree", "%s: end message differs: %r vs %r" % (
                where, la.end_message, dict(wa.end_message.as_dict())))
        if la.succeeded != (wa.status == "succeeded"):
            raise Violation("helper_tree", "%s: succeeded=%r, parser status %r" % (where, la.succeeded, wa.status))
        wkids = sorted(wa.children, key=first_index)
        lkids = list(la.children)
        if len(wkids) != len(lkids):
            raise Violation(("helper_children", {"how": "count"}),
                            "%s: helper lists %d children, parser %d" % (where, len(lkids), len(wkids)))
        for i, (lk, wk) in enumerate(zip(lkids, wkids)):
            sub = "%s/%d" % (where, i)
            if isinstance(wk, WrittenAction):
                compare(lk, wk, sub)
            else:
                if not isinstance(lk, LoggedMessage) or lk.message != dict(wk.as_dict()):
                    raise Violation(("helper_children", {"how": "order_or_identity"}),
                                    "%s: helper child %r, parser child (emission order) %r" % (
                                        sub, lk, dict(wk.as_dict())))

    def preorder(la):
        out = []
        for c in la.children:
            out.append(c)
            if isinstance(c, LoggedAction):
                out.extend(preorder(c))
        return out

    def type_tree(wa):
        kids = []
        for c in sorted(wa.children, key=first_index):
            if isinstance(c, WrittenAction):
                kids.append(type_tree(c))
            else:
                kids.append(c.contents.get("message_type"))
        return {wa.action_type: kids}

    # the helpers are functions of the list they are given: a second, equal-length list that is allocated
    # where a just-discarded one lived must be answered from its own messages
    if rc.model.all_actions():
        T0 = rc.model.all_actions()[0].atype
        tmp = list(msgs)
        try:
            LoggedAction.of_type(tmp, T0)
            del tmp
            # (the second list's messages are told apart by value, not identity: a helper may hand out copies)
            tmp2 = [dict(m, c17_probe="second list") for m in msgs]
            second = LoggedAction.of_type(tmp2, T0)
        except Exception as e:  # noqa
            raise Violation(("helper_raised", {"exc": type(e).__name__}),
                            "LoggedAction.of_type(%r) raised %s: %s" % (T0, type(e).__name__, e))
        for la in second:
            if la.start_message.get("c17_probe") != "second list":
                raise Violation("of_type_stale", "of_type() on a fresh list returned actions built from another list's messages")
        rc.probe("recycled_list_queried")
    atypes = sorted(set(a.atype for a in rc.model.all_actions()))
    for T in atypes:
        arg = T
        if T in rc.interp.types and st.choose(2, "type-as-object"):
            arg = rc.interp.types[T]
        try:
            las = LoggedAction.of_type(msgs, arg)
        except Exception as e:  # noqa
            raise Violation(("helper_raised", {"exc": type(e).__name__}),
                            "LoggedAction.of_type(%r) raised %s: %s" % (T, type(e).__name__, e))
        want = [a for a in rc.model.all_actions() if a.atype == T]
        starts = [i for i, m in enumerate(msgs) if m.get("action_type") == T and m.get("action_status") == "started"]
        if len(las) != len(want) or len(las) != len(starts):
            raise Violation(("of_type_count", {"dir": "fewer" if len(las) < len(want) else "more"}),
                            "LoggedAction.of_type(%r) returned %d entries; %d actions of that type were performed" % (
                                T, len(las), len(want)))
        for la, si in zip(las, starts):
            sm = msgs[si]
            if la.start_message != sm:
                raise Violation("of_type_order", "of_type(%r): entries are not in emission order of their starts" % T)
            wa = written[(sm["task_uuid"], tuple(sm["task_level"][:-1]))]
            compare(la, wa, "of_type(%r)[%d]" % (T, starts.index(si)))
            d = list(la.descendants())
            po = preorder(la)
            if len(d) != len(po) or any(x != y for x, y in zip(d, po)):
                raise Violation("descendants", "descendants() is not the pre-order of the children tree")
            if la.type_tree() != type_tree(wa):
                raise Violation("type_tree", "type_tree() %r != %r" % (la.type_tree(), type_tree(wa)))
            n = sm.get("nid")
            node = rc.model.by_nid.get(n) if n is not None else None
            # (the flag is compared with the logged end message and the parser above; whether that status is
            # what the body did is C03's statement)
        # assertHasAction with drawn expectations, against the first entry
        tc = unittest.TestCase()
        first = las[0]
        for _ in range(2):
            exp_succ = first.succeeded if st.choose(3, "succ?") else (not first.succeeded)
            sf = _expect(st, first.start_message)
            ef = _expect(st, first.end_message)
            should_pass = (exp_succ == first.succeeded) and _superset(first.start_message, sf[0]) and \
                _superset(first.end_message, ef[0])
            try:
                r = assertHasAction(tc, rc.mlogger, arg, exp_succ, sf[0], ef[0])
                passed = True
            except AssertionError:
                passed = False
            if passed != should_pass:
                raise Violation(("assert_has_action", {"said": "pass" if passed else "fail"}),
                                "assertHasAction(%r, succeeded=%r, %r, %r) %s, first entry is succeeded=%r %r %r" % (
                                    T, exp_succ, sf[0], ef[0], "passed" if passed else "failed", first.succeeded,
                                    first.start_message, first.end_message))
            if passed and r is not None and (r.start_message != first.start_message):
                raise Violation("assert_has_action", "assertHasAction returned a different action than the first")
    mtypes = sorted(set(m.get("message_type") for m in msgs if "message_type" in m))
    for mt in mtypes:
        arg = mt
        if mt in rc.interp.types and st.choose(2, "mtype-as-object"):
            arg = rc.interp.types[mt]
        lms = LoggedMessage.of_type(msgs, arg)
        want = [m for m in msgs if m.get("message_type") == mt]
        if len(lms) != len(want) or any(lm.message != w for lm, w in zip(lms, want)):
            raise Violation("message_of_type", "LoggedMessage.of_type(%r) returned %d entries, %d messages of that "
                            "type were logged (or out of order)" % (mt, len(lms), len(want)))
        tc = unittest.TestCase()
        ex, _p = _expect(st, want[0])
        should_pass = _superset(want[0], ex)
        try:
            assertHasMessage(tc, rc.mlogger, arg, ex)
            passed = True
        except AssertionError:
            passed = False
        if passed != should_pass:
            raise Violation(("assert_has_message", {"said": "pass" if passed else "fail"}),
                            "assertHasMessage(%r, %r) %s; first message of the type is %r" % (
                                mt, ex, "passed" if passed else "failed", want[0]))


def _expect(st, message):
    """A drawn expectation: a subset of the fields, possibly perturbed in one place."""
    keys = sorted(k for k in message if k not in ("timestamp",))
    exp = {}
    for k in keys:
        if st.choose(3, "keep-field") == 2:
            exp[k] = message[k]
    perturbed = False
    if st.choose(3, "perturb") == 2:
        perturbed = True
        how = st.choose(3, "perturb-how")
        if exp and how == 1:
            k = sorted(exp)[st.choose(len(exp), "which")]
            exp[k] = ["perturbed", exp[k]]
        elif how == 2:
            exp["no_such_field"] = None      # absent is not the same as logged with value None
        else:
            exp["no_such_field"] = 1
    return exp, perturbed


def _superset(message, fields):
    return all(k in message and message[k] == v for k, v in fields.items())
