"""C09 -- parsing is order-independent; completeness is detected exactly.

TRANSPORT world: the message set of a generated program (nesting, failed
actions, remote sub-tasks, several tasks, one-message tasks) is delivered to
the real Parser through a simulated log-shipping transport that reorders,
interleaves and drops: uniform permutations, reversed, each message last in
turn, round-robin / bursty interleaving of tasks, and drawn subsets.
"""

from esim import prog as P
from esim import oracles as O
from esim.driver import Violation
from esim.run import RunCtx, Tap, run_program
from . import base
from .c11 import check_parse, Snap

ID = "C09"
QUICK_RUNS = 3000
THOROUGH_RUNS = 100000
LEVEL = "exploration"
RULE = ("one run = one message set recorded from a generated program (<= 60 messages, remote sub-tasks, several "
        "tasks) delivered in 8 drawn full orders (uniform permutation, reversed, one message held back to the end, "
        "round-robin and bursty task interleavings) and 5 drawn subsets (missing start / end / inner / sub-tree / "
        "all but one); oracle: no exception, final parser state equal (PClass ==) across orders and equal to "
        "parse_stream, equal to the reference model, Parser.add returns a task exactly at the step that delivers "
        "the last message of its full set, never twice; under drops never for a damaged task, which appears once "
        "among the incomplete tasks with exactly the delivered messages. distinct = distinct (program shape, order "
        "kinds, hash of the delivered orders); non-trivial = >= 2 tasks or depth >= 2 or a remote sub-task.")
REAL = ["eliot/parse.py", "eliot/_action.py (WrittenAction, TaskLevel)", "eliot/_message.py (WrittenMessage)",
        "pyrsistent", "the writer side that produced the message sets (real eliot)"]
STUBS = ["log shipping between writer and parser -> sim transport (reorder, interleave, drop)"] + base.STUBS
ASSUMPTIONS = ["duplicate delivery is not injected: the statement is about sets of well-formed messages"]

N_ORDERS = 8
N_SUBSETS = 5


def prepare():
    base.prepare_common()
    base.monitoring()


def draw_cfg(st):
    cfg = {
        "world": "seq",
        "wide": st.choose(4, "wide") == 3,
        "late_remote": True,
        "max_ops": [8, 18, 35][st.choose(3, "size")],
        "max_depth": 1 + st.choose(5, "depth"),
        "value_depth": 0,
        "p_more": [0.8, 0.6, 0.9][st.choose(3, "p_more")],
        "p_catch": [0.5, 0.9][st.choose(2, "p_catch")],
        "n_actors": 1,
        "check_context": False,
        "act_styles": [i for i in range(len(P.ACT_STYLES)) if i in (0, 3) or st.choose(2, "style-on")],
        "msg_apis": [0, 1],
        "w_ops": [5, 6, 1, 1, 1, 0, 2 * st.choose(2, "remote")],
        "spawn_kinds": ["remote", "preserve", "thread"],
    }
    return cfg


def setup(rc, interp):
    rc.tap = Tap(rc)
    rc.eliot.add_destinations(rc.tap)


def shuffled(st, items, tag):
    items = list(items)
    for i in range(len(items) - 1, 0, -1):
        j = st.choose(i + 1, tag)
        items[i], items[j] = items[j], items[i]
    return items


def make_order(st, msgs, kind):
    n = len(msgs)
    if kind == 0:
        return shuffled(st, msgs, "perm")
    if kind == 1:
        return list(reversed(msgs))
    if kind == 2:
        # emission order, but one drawn message held back to the very end
        k = st.choose(n, "held")
        return msgs[:k] + msgs[k + 1:] + [msgs[k]]
    by = {}
    for m in msgs:
        by.setdefault(m["task_uuid"], []).append(m)
    queues = [shuffled(st, q, "intra") if kind == 4 else list(q) for q in by.values()]
    out = []
    if kind in (3, 4):
        # round robin over tasks
        while any(queues):
            for q in queues:
                if q:
                    out.append(q.pop(0))
        return out
    # bursty: drawn task, drawn burst length
    while any(queues):
        live = [q for q in queues if q]
        q = live[st.choose(len(live), "burst-task")]
        for _ in range(1 + st.choose(4, "burst-len")):
            if q:
                out.append(q.pop(st.choose(len(q), "burst-pick") if kind == 6 else 0))
    return out


def make_subset(st, msgs, kind):
    n = len(msgs)
    if n == 0:
        return []
    if kind == 0:      # drop a drawn start message
        c = [i for i, m in enumerate(msgs) if m.get("action_status") == "started"]
    elif kind == 1:    # drop a drawn end message
        c = [i for i, m in enumerate(msgs) if m.get("action_status") in ("succeeded", "failed")]
    elif kind == 2:    # drop a drawn plain message
        c = [i for i, m in enumerate(msgs) if "action_status" not in m]
    elif kind == 3:    # drop a whole sub-tree
        starts = [m for m in msgs if m.get("action_status") == "started" and len(m["task_level"]) > 1]
        if starts:
            s = starts[st.choose(len(starts), "subtree")]
            pre = s["task_level"][:-1]
            return [m for m in msgs if not (m["task_uuid"] == s["task_uuid"] and m["task_level"][:len(pre)] == pre)]
        c = []
    else:              # random subset
        return [m for m in msgs if st.choose(3, "keep")]
    if not c:
        k = st.choose(n, "drop-any")
    else:
        k = c[st.choose(len(c), "drop")]
    return msgs[:k] + msgs[k + 1:]


def well_formed(full):
    """Is this set of messages the whole of a finished task?  Decided from the messages alone (levels and
    statuses), independently of the parser: every action has positions 1..n, a start at 1 and an end at n.
    (A writer that never wrote some end message has not produced a well-formed task; the statement is about
    sets of well-formed tasks, nothing is owed for the others except never calling them complete.)"""
    by_prefix = {}
    for m in full:
        lv = tuple(m["task_level"])
        by_prefix.setdefault(lv[:-1], {})[lv[-1]] = m
    if () not in by_prefix:
        return False
    if len(full) == 1 and full[0]["task_level"] == [1] and "action_status" not in full[0]:
        return True
    used = {pre: set(kids) for pre, kids in by_prefix.items()}
    for pre in by_prefix:
        if pre:
            if pre[:-1] not in by_prefix or pre[-1] in by_prefix[pre[:-1]]:
                return False          # a child action whose parent is missing, or at a position holding a message
            used[pre[:-1]].add(pre[-1])
    for pre, kids in by_prefix.items():
        n = len(used[pre])
        if sorted(used[pre]) != list(range(1, n + 1)):
            return False
        if 1 not in kids or n not in kids:
            return False
        if kids[1].get("action_status") != "started" or kids[n].get("action_status") not in ("succeeded", "failed"):
            return False
    return True


def deliver(msgs, full_by_uuid, what):
    """Feed msgs to Parser.add one by one; check completion timing."""
    from eliot.parse import Parser
    parser = Parser()
    arrived = {}
    returned = {}
    wf = {}
    for i, m in enumerate(msgs):
        u = m["task_uuid"]
        try:
            done, parser = parser.add(m)
        except Exception as e:  # noqa
            raise Violation(("parser_raised", {"exc": type(e).__name__}),
                            "%s: Parser.add raised %s at step %d: %s" % (what, type(e).__name__, i, str(e)[:300]))
        arrived[u] = arrived.get(u, 0) + 1
        full = len(full_by_uuid[u])
        if u not in wf:
            wf[u] = well_formed(full_by_uuid[u])
        should = arrived[u] == full and wf[u]
        got = [t for t in done]
        if len(got) > 1:
            raise Violation("completion_timing", "%s: add returned %d tasks at once" % (what, len(got)))
        if got:
            gu = got[0].root().task_uuid if got[0].is_complete() else None
            if not got[0].is_complete():
                raise Violation("completion_timing", "%s: add returned a task whose is_complete() is False" % what)
            if gu != u:
                raise Violation("completion_timing", "%s: add returned task %s while delivering a message of %s" % (what, gu, u))
            if u in returned:
                raise Violation(("completion_timing", {"how": "twice"}), "%s: task %s returned twice" % (what, u))
            if not should:
                raise Violation(("completion_timing", {"how": "early"}),
                                "%s: task %s reported complete after %d of its %d messages" % (what, u, arrived[u], full))
            returned[u] = got[0]
        elif should:
            raise Violation(("completion_timing", {"how": "late"}),
                            "%s: task %s not reported complete when its last message (%d of %d) arrived" % (
                                what, u, arrived[u], full))
    incomplete = {}
    try:
        rest = list(parser.incomplete_tasks())
    except Exception as e:  # noqa
        raise Violation(("parser_raised", {"exc": type(e).__name__}),
                        "%s: Parser.incomplete_tasks raised %s: %s" % (what, type(e).__name__, str(e)[:300]))
    for t in rest:
        u = t.root().task_uuid
        if u in incomplete or u in returned:
            raise Violation(("completion_timing", {"how": "twice"}), "%s: task %s yielded twice" % (what, u))
        if t.is_complete():
            raise Violation("completion_timing", "%s: an incomplete task claims is_complete()" % what)
        incomplete[u] = t
    for u in arrived:
        if u not in returned and u not in incomplete:
            raise Violation("task_lost", "%s: task %s vanished from the parser" % (what, u))
    out = dict(returned)
    out.update(incomplete)
    return out


def branching(st, msgs, full_by_uuid):
    """The parser is a value: Parser.add returns the updated parser and leaves the old one as it was.  One
    parser that has seen a prefix of the stream is continued twice, with the rest in two different orders; the
    old value must not change under it, and both continuations must end in the same place, each reporting
    every task exactly when its last message arrives."""
    from eliot.parse import Parser
    if len(msgs) < 3:
        return
    k = 1 + st.choose(len(msgs) - 1, "branch-at")
    prefix, rest = msgs[:k], msgs[k:]
    parser = Parser()
    seen = {}
    done_before = set()
    for m in prefix:
        try:
            done, parser = parser.add(m)
        except Exception as e:  # noqa
            raise Violation(("parser_raised", {"exc": type(e).__name__}), "branching prefix: %s" % e)
        seen[m["task_uuid"]] = seen.get(m["task_uuid"], 0) + 1
        done_before.update(t.root().task_uuid for t in done)

    def snap(pr):
        return sorted((t.root().task_uuid, t.is_complete(), repr(t)) for t in pr.incomplete_tasks())

    before = snap(parser)
    ends = []
    for name, tail in (("forwards", rest), ("backwards", list(reversed(rest)))):
        pr = parser
        arrived = dict(seen)
        returned = {}
        for m in tail:
            u = m["task_uuid"]
            try:
                done, pr = pr.add(m)
            except Exception as e:  # noqa
                raise Violation(("parser_raised", {"exc": type(e).__name__}), "branching %s: %s" % (name, e))
            arrived[u] = arrived.get(u, 0) + 1
            should = arrived[u] == len(full_by_uuid[u]) and well_formed(full_by_uuid[u]) and u not in done_before
            got = [t.root().task_uuid for t in done]
            if got and (got != [u] or not should):
                raise Violation(("completion_timing", {"how": "early"}),
                                "continuing an older parser value (%s, after %d messages): task %s reported complete "
                                "after %d of its %d messages" % (name, k, got, arrived[u], len(full_by_uuid[u])))
            if should and not got:
                raise Violation(("completion_timing", {"how": "late"}),
                                "continuing an older parser value (%s): task %s not reported at its last message" % (name, u))
            for t in done:
                returned[t.root().task_uuid] = t
        if snap(parser) != before:
            raise Violation("parser_not_persistent", "a Parser value changed after a parser derived from it was "
                            "advanced (%s continuation from message %d)" % (name, k))
        ends.append((returned, pr))
    (r1, p1), (r2, p2) = ends
    if set(r1) != set(r2) or any(not (r1[u] == r2[u]) for u in r1) or not (p1 == p2):
        raise Violation("order_dependent", "two continuations of one parser value (rest forwards / backwards) end differently")


def run_one(seed, dec):
    cfg = draw_cfg(dec.stream("cfg"))
    prog = P.generate(dec.stream("prog"), cfg)
    rc = RunCtx(ID, seed, dec, cfg)
    run_program(rc, prog, setup)
    sig = None
    if rc.violation is None:
        try:
            sig = oracle(rc)
        except Violation as v:
            rc.fail_v(v)
    n_tasks = len(rc.model.roots)
    _n, depth = P.count_ops(prog)
    nontrivial = n_tasks >= 2 or depth >= 2 or bool(rc.model.reserved)
    return base.result(rc, prog, nontrivial=nontrivial, distinct_extra=sig,
                       extra_stats={"orders_delivered": N_ORDERS, "subsets_delivered": N_SUBSETS,
                                    "messages_in_set": len(rc.tap.records)})


def oracle(rc):
    import hashlib
    from eliot.parse import Parser
    st = rc.dec.stream("transport")
    msgs = [r.msg for r in rc.tap.records]
    if not msgs:
        return None
    full_by_uuid = {}
    for m in msgs:
        full_by_uuid.setdefault(m["task_uuid"], []).append(m)
    # reference: emission order, against the model
    O.account(msgs, rc.model, lenient=True, ends=False)
    O.check_forest(msgs, rc.model, order_free=False, lenient=True, fields=False, status=False, require_complete=False)
    ref = deliver(msgs, full_by_uuid, "emission order")
    h = hashlib.blake2b(digest_size=6)
    kinds = []
    for k in range(N_ORDERS):
        kind = st.choose(7, "order-kind")
        kinds.append(kind)
        order = make_order(st, msgs, kind)
        h.update(repr([(m["task_uuid"], m["task_level"]) for m in order]).encode())
        what = "order kind %d" % kind
        got = deliver(order, full_by_uuid, what)
        if set(got) != set(ref):
            raise Violation("order_dependent", "%s: tasks %s vs %s" % (what, sorted(got), sorted(ref)))
        for u in ref:
            if not (got[u] == ref[u]):
                raise Violation("order_dependent", "%s: task %s differs from the one parsed in emission order" % (what, u))
        # parse_stream over a lazily produced stream (a log being tailed): a completed task comes out
        # when its last message has gone in, not later
        consumed = [0]

        def feed(order=order):
            for m in order:
                consumed[0] += 1
                yield m
        last_at = {}
        for i, m in enumerate(order):
            last_at[m["task_uuid"]] = i + 1
        streamed = []
        try:
            for t in Parser.parse_stream(feed()):
                streamed.append(t)
                u = t.root().task_uuid
                if t.is_complete() and consumed[0] != last_at.get(u):
                    raise Violation(("stream_timing", {"dir": "late" if consumed[0] > last_at.get(u, 0) else "early"}),
                                    "%s: parse_stream yielded task %s after consuming %d messages; its last message "
                                    "is number %d of the stream" % (what, u, consumed[0], last_at.get(u, -1)))
        except Violation:
            raise
        except Exception as e:  # noqa
            raise Violation(("parser_raised", {"exc": type(e).__name__}), "%s: parse_stream raised %s" % (what, e))
        if len(streamed) != len(ref) or any(not any(t == r for r in ref.values()) for t in streamed):
            raise Violation("order_dependent", "%s: parse_stream yields a different set of tasks" % what)
    branching(st, msgs, full_by_uuid)
    for k in range(N_SUBSETS):
        kind = st.choose(5, "subset-kind")
        sub = make_subset(st, msgs, kind)
        order = shuffled(st, sub, "sub-perm") if st.choose(2, "sub-shuffle") else sub
        h.update(repr([(m["task_uuid"], m["task_level"]) for m in order]).encode())
        what = "subset kind %d (%d of %d messages)" % (kind, len(sub), len(msgs))
        got = deliver(order, full_by_uuid, what)
        # partial trees: exactly the delivered messages, truthful presence of start/end, completeness
        try:
            tasks = list(got.values())
            check_parse(rc, Snap(0, "subset%d" % kind, b"", False), order, rc.tap.records)
        except Violation as v:
            raise
        rc.count_fault("drop", len(msgs) - len(sub))
    rc.count_fault("reorder", N_ORDERS)
    return (tuple(kinds), h.hexdigest())
