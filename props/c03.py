"""C03 -- exactly one start, one truthful end; errors pass through.

SEQ and ASYNC worlds; faults: body_raise (every class incl. BaseException
subclasses and a class whose str() raises) at every nesting level, extractors
registered along the MRO (incl. raising ones), task cancellation at drawn
virtual times, repeated finish() calls, plain generators closed/thrown into.
"""

from esim import prog as P
from esim import oracles as O
from esim.driver import Violation
from esim.run import RunCtx, Tap, run_program
from . import base

ID = "C03"
QUICK_RUNS = 20000
THOROUGH_RUNS = 800000
LEVEL = "exploration"
RULE = ("one run = one generated program whose action bodies exit by return / raise of 14 exception classes "
        "(caught at a drawn outer level or not at all) / asyncio cancellation at a drawn virtual time / "
        "generator close or throw, with drawn exception-extractor registrations (incl. raising extractors) and "
        "repeated finish calls; oracle: exact start/end accounting at a tap, truthful status, exception class "
        "path, text and nearest-MRO extractor fields, identity of the propagated exception. distinct = distinct "
        "(program shape, fault counts); non-trivial = depth >= 2 or a fault fired.")
REAL = base.REAL
STUBS = base.STUBS
ASSUMPTIONS = ["extractor-failure tracebacks: presence, class and text are checked, their own extractor fields are not",
               "an extractor that raises an exception of a class it is itself registered for is generated only "
               "when cfg.self_covered is drawn (known defect D)"]

EXC = P.DEFAULT_EXC + ["StrRaises", "ExtractMe", "ExtractSub", "CollideErr", "MixedErr", "MixedErr2"]
EXTRACTABLE = ["ExtractMe", "ExtractSub", "AppError", "AppSubError", "ValueError", "OSError", "KeyError",
               "AppBase", "CancelledError", "GeneratorExit", "Exception"]


def prepare():
    base.prepare_common()
    base.monitoring()


def draw_cfg(st, prop="C03"):
    world = ["seq", "async", "threads"][st.weighted([65, 25, 10], "world")]
    cfg = {
        "world": world,
        "max_ops": [10, 25, 50][st.choose(3, "size")],
        "max_depth": 2 + st.choose(6, "depth"),
        "value_depth": st.choose(2, "vdepth"),
        "p_more": [0.75, 0.6, 0.9][st.choose(3, "p_more")],
        "p_catch": [0.5, 0.9, 0.1][st.choose(3, "p_catch")],
        "n_actors": 1,
        "exc": EXC,
        "check_context": True,
        "p_clock_jump": [0.0, 0.05][st.choose(2, "clockjump")],
        "w_plain_gen": st.choose(2, "plain_gen"),
        "w_reenter": st.choose(2, "reenter"),
        "call_budget": 60000,
        "w_xreg": st.choose(2, "xreg"),
        "mutate_exc": True,
        "extractable": EXTRACTABLE,
        "w_handler": st.choose(3, "handler"),
    }
    styles = [i for i in range(len(P.ACT_STYLES)) if i == 0 or st.choose(3, "style-on")]
    cfg["act_styles"] = styles
    cfg["msg_apis"] = [0, 1]
    w_ops = [4, 6, 1, 2, 2 + st.choose(3, "raise-w"), 0, 0]
    if world == "async":
        cfg["n_actors"] = 1 + st.choose(2, "actors")
        cfg["spawn_kinds"] = ["task"]
        cfg["p_cancel"] = [0.5, 0.2, 0.9][st.choose(3, "p_cancel")]
        w_ops = [4, 6, 1, 2, 2, 4, 3]
    if world == "threads":
        # the extractor registry is process-wide: actions failing in several threads at once
        cfg["n_actors"] = 2 + st.choose(2, "actors")
        cfg["p_switch"] = [0.1, 0.3][st.choose(2, "p_switch")]
        cfg["gran"] = "line"
        cfg["traced"] = ["_action.py", "_errors.py", "_traceback.py"]
        cfg["spawn_kinds"] = ["thread"]
        cfg["w_plain_gen"] = 0
        cfg["w_xreg"] = 0
        w_ops = [4, 6, 1, 2, 3, 1, 1]
        cfg["max_ops"] = min(cfg["max_ops"], 25)
    cfg["w_ops"] = w_ops
    # extractor registrations
    ex = []
    n = st.choose(4, "n-extractors")
    for _ in range(n):
        cname = EXTRACTABLE[st.choose(len(EXTRACTABLE), "xcls")]
        mode = ["fields", "fields", "flaky", "raise"][st.choose(4, "xmode")]
        if cname not in [c for c, _m in ex]:
            ex.append([cname, mode])
    if world == "threads" and st.choose(2, "hot-class"):
        # every thread fails with the same few classes, all covered by one slow extractor that fails (or
        # works): the registry entry is used by several threads at the same moment
        hot = ["AppError", "ValueError", "KeyError", "ExtractMe"][st.choose(4, "hot")]
        cfg["exc"] = {"AppError": ["AppError", "AppSubError", "MixedErr"], "ValueError": ["ValueError", "MixedErr2"],
                      "KeyError": ["KeyError", "MixedErr"], "ExtractMe": ["ExtractMe", "ExtractSub"]}[hot]
        ex = [[hot, "raise" if st.choose(3, "hot-mode") else "fields"]]
        if st.choose(2, "hot-pair"):
            # ... and a second family whose extractor works, failing in other threads at the same time: what
            # goes wrong for one exception must not leak into the handling of another
            other = [h for h in ("AppError", "ValueError", "KeyError", "ExtractMe") if h != hot][st.choose(3, "hot2")]
            cfg["exc"] = cfg["exc"] + {"AppError": ["AppError", "AppSubError"], "ValueError": ["ValueError"],
                                       "KeyError": ["KeyError"], "ExtractMe": ["ExtractMe", "ExtractSub"]}[other]
            ex = [[hot, "raise"], [other, "fields"]]
    if st.choose(2, "collide"):
        # an extractor whose result collides with the fields eliot itself puts on a failed end message
        ex.append(["CollideErr", "collide"])
    cfg["extractors"] = ex
    return cfg


def setup(rc, interp):
    rc.tap = Tap(rc)
    rc.eliot.add_destinations(rc.tap)
    rc.setup_extractors(rc.cfg.get("extractors", []))


def run_one(seed, dec):
    cfg = draw_cfg(dec.stream("cfg"))
    prog = P.generate(dec.stream("prog"), cfg)
    rc = RunCtx(ID, seed, dec, cfg)
    run_program(rc, prog, setup)
    if rc.violation is None:
        try:
            oracle(rc)
        except Violation as v:
            rc.fail_v(v)
    rc.faults["body_raise"] = sum(1 for a in rc.model.all_actions() if a.outcome == "failed")
    return base.result(rc, prog)


def oracle(rc):
    msgs = [r.msg for r in rc.tap.records]
    # (where eliot files the reports about its own failures -- a raising extractor's traceback -- is not part of
    # C03; its two messages per action, their status and fields are)
    O.account(msgs, rc.model, lenient=True)
    O.check_forest(msgs, rc.model, order_free=False, lenient=True, require_complete=False)
    # cancelled tasks: every action open in them ended failed with CancelledError -- implied by the
    # dynamic model (the interpreter saw CancelledError pass through each of its frames).
