"""C20 -- the bundled readers render every message completely and survive
foreign input.

The command-line half is a reader facing damaged storage; it is driven with
the simulator's own artefacts: the log file of a simulated run (tracebacks,
failure reports, typed and failed actions, nested and multi-line values),
then damaged by drawn storage faults -- torn tail (crash), a lost newline
(partial write glued to the next line), flipped bytes, spliced binary and
non-UTF-8 data, spliced JSON values that are not objects or lack required
fields.  The formatting half is a per-message function checked on every
message the run emitted (a by-product check with no fault in it).
"""

import datetime
import io
import json
import sys

from esim import prog as P
from esim import oracles as O
from esim.driver import Violation
from esim.run import RunCtx, Tap, FaultyDest, run_program
from esim.simfile import SimFile
from . import base
from .c02 import MASKS
from .c03 import EXTRACTABLE

ID = "C20"
QUICK_RUNS = 10000
THOROUGH_RUNS = 400000
LEVEL = "exploration"
RULE = ("one run = the JSON log of a generated program (typed and failed actions, tracebacks, extractor fields, "
        "destination-failure and serialization-failure reports, nested / multi-line values) damaged by 0-6 drawn "
        "storage faults (torn tail, glued lines, flipped bytes, spliced binary / non-UTF-8 / non-object JSON / "
        "objects lacking required fields / blank lines) and fed to eliot-prettyprint's _main in all 4 flag "
        "combinations and to EliotFilter (identity and a SKIP predicate); plus pretty_format / compact_format "
        "checked field by field on every emitted message. distinct = distinct (program shape, fault kinds, damaged "
        "stream hash); non-trivial = >= 1 storage fault applied and >= 3 messages.")
REAL = ["eliot/prettyprint.py (_main, pretty_format, compact_format)", "eliot/filter.py (EliotFilter)",
        "the writer side that produced the log (real eliot through FileDestination)"]
STUBS = ["stdin/stdout/sys.argv of the command -> in-memory streams", "the stored log -> SimFile contents damaged by drawn faults"] + base.STUBS
ASSUMPTIONS = ["objects that carry the three required fields with ill-typed values are not in the quantifier: "
               "damaged lines that decode to such objects are removed from the corpus before it is fed to the readers",
               "the formatting half is input generation (every message the run emitted), not fault injection",
               "EliotFilter is fed JSON lines only (the statement promises survival of non-JSON input for eliot-prettyprint)"]

SPLICES = [b"5\n", b"[1]\n", b"\"x\"\n", b"null\n", b"true\n", b"{}\n", b"{\"task_uuid\": \"u\"}\n",
           b"{\"timestamp\": 1, \"task_level\": [1]}\n", b"   \n", b"\n", b"\xff\xfe\x00garbage\n",
           b"not json at all\n", b"{\"truncated\": \n", b"\x80\x81\x82\n", b"[1, {\"a\": [2, 3]}]\n",
           b"1.5e3\n", b"\"task_uuid\"\n", b"{\"task_uuid\": \"u\", \"task_level\": [1]}\n", b"-0\n",
           b"[\"task_uuid\", \"task_level\", \"timestamp\"]\n",
           # foreign text cut off inside a multi-byte UTF-8 character (2-, 3- and 4-byte sequences)
           b"Traceback: caf\xc3\n", b"price \xe2\x82\n", b"\xf0\x9f\x98\n", b"{\"note\": \"caf\xc3\n",
           # ... and things that look like the beginning of a JSON object but are not one
           b"{abc\n", b"{\"task_uuid\": \"u\", \n"]


def prepare():
    base.prepare_common()
    base.monitoring()


def draw_cfg(st):
    cfg = {
        "world": "seq",
        "max_ops": [6, 15, 30][st.choose(3, "size")],
        "max_depth": 1 + st.choose(4, "depth"),
        "value_depth": 1 + st.choose(3, "vdepth"),
        "p_more": [0.8, 0.6, 0.9][st.choose(3, "p_more")],
        "p_catch": 0.7,
        "n_actors": 1,
        "check_context": False,
        "act_styles": [i for i in range(len(P.ACT_STYLES)) if i in (0,) or st.choose(2, "style-on")],
        "msg_apis": [0, 1, 2],
        "w_ops": [6, 5, 2, 2, 1, 0, 0],
        "p_ser_raise": [0.0, 0.2][st.choose(2, "p_ser")],
        "p_clock_jump": [0.0, 0.1][st.choose(2, "clockjump")],
        "n_damage": st.choose(7, "n-damage"),
        "threads_format": st.choose(4, "threads-format") == 3,
    }
    ex = []
    for _ in range(st.choose(3, "n-extractors")):
        cname = EXTRACTABLE[st.choose(len(EXTRACTABLE), "xcls")]
        if cname not in [c for c, _m in ex]:
            ex.append([cname, "fields"])
    cfg["extractors"] = ex
    cfg["faulty"] = [[list(MASKS[st.choose(len(MASKS), "mask")]), st.choose(6, "exc-kind")]
                     for _ in range(st.choose(3, "n-faulty"))]
    return cfg


def setup(rc, interp):
    e = rc.eliot
    rc.file = SimFile("log", text=False)
    rc.tap = Tap(rc, deep=False)
    faulty = [FaultyDest(rc, "f%d" % i, tuple(m), ek) for i, (m, ek) in enumerate(rc.cfg["faulty"])]
    e.add_destinations(e.FileDestination(file=rc.file), rc.tap, *faulty)
    rc.setup_extractors(rc.cfg["extractors"])


def run_one(seed, dec):
    cfg = draw_cfg(dec.stream("cfg"))
    prog = P.generate(dec.stream("prog"), cfg)
    rc = RunCtx(ID, seed, dec, cfg)
    rc.faulty_values = bool(cfg["p_ser_raise"])
    run_program(rc, prog, setup)
    sig = None
    if rc.violation is None:
        try:
            sig = oracle(rc, dec.stream("damage"))
        except Violation as v:
            rc.fail_v(v)
    n = len(rc.tap.records)
    return base.result(rc, prog, nontrivial=bool(sig and sig[0]) and n >= 3, distinct_extra=sig,
                       extra_stats={"messages_formatted": n})


# --------------------------------------------------------------- classification
def classify(raw):
    """not_json | not_object | not_eliot | eliot | excluded (required fields present but ill-typed)."""
    try:
        v = json.loads(raw)
    except ValueError:
        return "not_json", None
    if not isinstance(v, dict):
        return "not_object", v
    if {"task_uuid", "task_level", "timestamp"} - set(v):
        return "not_eliot", v
    lv = v["task_level"]
    ts = v["timestamp"]
    ok = (isinstance(v["task_uuid"], str) and isinstance(lv, list) and
          all(isinstance(i, int) and not isinstance(i, bool) for i in lv) and
          isinstance(ts, (int, float)) and not isinstance(ts, bool) and ts == ts and 0 <= ts < 2.5e11)
    return ("eliot" if ok else "excluded"), v


def damage(st, data, n, rc):
    kinds = []
    for _ in range(n):
        k = st.choose(6, "damage-kind")
        if not data:
            k = 3
        if k == 0:      # torn tail: the process died while writing
            cut = st.choose(len(data) + 1, "cut")
            data = data[:cut]
            kinds.append("torn_tail")
        elif k == 1:    # a newline was lost: fragment glued to the next line
            nl = [i for i, b in enumerate(data) if b == 10]
            if nl:
                i = nl[st.choose(len(nl), "glue")]
                data = data[:i] + data[i + 1:]
                kinds.append("glue")
        elif k == 2:    # flipped byte
            i = st.choose(len(data), "flip-at")
            data = data[:i] + bytes([data[i] ^ (1 << st.choose(8, "bit"))]) + data[i + 1:]
            kinds.append("corrupt")
        else:           # foreign line spliced in at a line boundary
            nl = [0] + [i + 1 for i, b in enumerate(data) if b == 10]
            at = nl[st.choose(len(nl), "splice-at")]
            sp = SPLICES[st.choose(len(SPLICES), "splice")]
            data = data[:at] + sp + data[at:]
            kinds.append("splice")
    for k in kinds:
        rc.count_fault(k)
    return data, tuple(kinds)


def oracle(rc, st):
    import hashlib
    from eliot import prettyprint as PP
    from eliot.filter import EliotFilter
    msgs, raw, tail = O.decode_lines(rc.file.os_cache)
    # ---- formatting half: every emitted message
    for m in msgs:
        check_formats(PP, m)
    # ---- formatting from two threads at once (module-level state of the formatters must not mix messages)
    if len(msgs) >= 2 and rc.cfg.get("threads_format"):
        format_concurrently(rc, PP, msgs)
    # ---- command-line half
    data, kinds = damage(st, rc.file.os_cache, rc.cfg["n_damage"], rc)
    lines = io.BytesIO(data).readlines()
    kept = []
    classes = []
    for ln in lines:
        c, v = classify(ln)
        if c == "excluded":
            rc.probe("excluded_ill_typed_line")
            continue
        kept.append(ln)
        classes.append((c, v))
        rc.probe("line_" + c)
    stream = b"".join(kept)
    # when a kept line has no trailing newline it can only be the last one
    for flags in ([], ["-c"], ["-l"], ["-c", "-l"]):
        formatter = PP.compact_format if "-c" in flags else PP.pretty_format
        local = "-l" in flags
        want = []
        for ln, (c, v) in zip(kept, classes):
            if c == "not_json":
                want.append("Not JSON: {}\n\n".format(ln.rstrip(b"\n")))
            elif c in ("not_object", "not_eliot"):
                want.append("Not an Eliot message: {}\n\n".format(ln.rstrip(b"\n")))
            else:
                want.append(formatter(v, local) + "\n")
        out = io.StringIO()
        old = (PP.stdin, PP.stdout, sys.argv)
        PP.stdin, PP.stdout, sys.argv = io.BytesIO(stream), out, ["eliot-prettyprint"] + flags
        try:
            try:
                PP._main()
            except SystemExit as ex:
                raise Violation(("cli_abort", {"exc": "SystemExit"}), "eliot-prettyprint exited: %r" % (ex,))
            except Exception as ex:  # noqa
                done = out.getvalue()
                idx = _progress(done, want)
                c = classes[idx][0] if idx < len(classes) else "?"
                raise Violation(("cli_abort", {"exc": type(ex).__name__, "line": c}),
                                "eliot-prettyprint %s aborted with %s: %s on input line %d (%s): %r" % (
                                    " ".join(flags), type(ex).__name__, ex, idx, c,
                                    kept[idx][:120] if idx < len(kept) else None))
        finally:
            PP.stdin, PP.stdout, sys.argv = old
        got = out.getvalue()
        if got != "".join(want):
            # not the historical wording: the statement fixes the rendering of Eliot messages, and that every
            # other line is reported, not what a report says.  Renderings are anchors, in input order; between
            # two anchors there is text exactly when foreign lines came in between.
            rc.probe("cli_reports_worded_differently")
            p_, foreign, bad = 0, 0, None
            for idx, (ln, (c, v)) in enumerate(zip(kept, classes)):
                if c in ("not_json", "not_object", "not_eliot"):
                    foreign += 1
                    continue
                w = want[idx]
                at = got.find(w, p_)
                if at < 0 or (foreign == 0 and at != p_) or (foreign > 0 and not got[p_:at].strip()):
                    bad = idx if at < 0 or foreign == 0 else idx - 1
                    break
                p_, foreign = at + len(w), 0
            if bad is None and ((foreign == 0 and got[p_:].strip()) or (foreign > 0 and not got[p_:].strip())):
                bad = len(kept) - 1
            if bad is not None:
                idx = max(0, bad)
                raise Violation(("cli_output", {"line": classes[idx][0] if idx < len(classes) else "?"}),
                                "eliot-prettyprint %s: output differs around input line %d (%r): got %r" % (
                                    " ".join(flags), idx, kept[idx][:100] if idx < len(kept) else None, got[p_:][:200]))
    # ---- eliot.filter on the JSON lines
    jlines = [ln for ln, (c, v) in zip(kept, classes) if c != "not_json"]
    out = io.StringIO()
    try:
        EliotFilter("J", jlines, out).run()
    except Exception as ex:  # noqa
        raise Violation(("filter_abort", {"exc": type(ex).__name__}), "EliotFilter('J') raised %s: %s" % (type(ex).__name__, ex))
    outs = out.getvalue().split("\n")
    if outs[-1] != "" or len(outs) - 1 != len(jlines):
        raise Violation("filter_output", "EliotFilter('J') wrote %d lines for %d inputs" % (len(outs) - 1, len(jlines)))
    for o, ln in zip(outs, jlines):
        if json.loads(o) != json.loads(ln):
            raise Violation("filter_output", "identity filter changed %r into %r" % (ln[:200], o[:200]))
    # text input (what `python -m eliot.filter` reads from sys.stdin) and an expression that edits J in place
    tlines = []
    for ln, (c, v) in zip(kept, classes):
        if c == "eliot":
            try:
                tlines.append(ln.decode("utf-8"))
            except UnicodeDecodeError:
                pass
    for expr in ("J.update(redacted=True) or J", "J.pop('task_level', None) and None or J", "J"):
        out = io.StringIO()
        try:
            EliotFilter(expr, tlines, out).run()
        except Exception as ex:  # noqa
            raise Violation(("filter_abort", {"exc": type(ex).__name__}), "EliotFilter(%r) raised %s: %s" % (expr, type(ex).__name__, ex))
        got = [x for x in out.getvalue().split("\n") if x]
        if len(got) != len(tlines):
            raise Violation("filter_output", "EliotFilter(%r) wrote %d lines for %d inputs" % (expr, len(got), len(tlines)))
        for o, ln in zip(got, tlines):
            J = json.loads(ln)
            want = eval(expr, {}, {"J": J})
            if json.loads(o) != want:
                raise Violation(("filter_output", {"expr": "in_place" if expr != "J" else "identity"}),
                                "EliotFilter(%r) wrote %r, the expression's value is %r" % (expr, o[:200], want))
    if len(tlines) >= 2 and rc.cfg.get("threads_format"):
        filter_concurrently(rc, [x for x in tlines if isinstance(json.loads(x), dict) and
                                 isinstance(json.loads(x).get("task_level"), list)])
    # a line the filter cannot decode stops it (as before), but everything it processed up to there has
    # been written: the output is the encoding of every line processed
    if tlines:
        k = st.choose(len(tlines) + 1, "bad-line-at")
        stream_ = tlines[:k] + ["this is not JSON\n"] + tlines[k:]
        out = io.StringIO()
        try:
            EliotFilter("J", stream_, out).run()
            raise Violation("filter_output", "EliotFilter accepted a non-JSON line silently")
        except ValueError:
            pass
        got = [x for x in out.getvalue().split("\n") if x]
        if len(got) != k or any(json.loads(o) != json.loads(ln) for o, ln in zip(got, tlines[:k])):
            raise Violation(("filter_output", {"expr": "before_error"}),
                            "EliotFilter stopped at input line %d (not JSON) having written %d of the %d lines before it" % (
                                k, len(got), k))
    # an expression whose value for one line cannot be encoded (a timedelta inside it) fails for that line; what
    # has been written is still whole lines: the encodings of the lines before it, no fragment of the failing one
    if tlines:
        k = st.choose(len(tlines), "unencodable-at")
        Jk = json.loads(tlines[k])
        kk = lambda d: (d.get("task_uuid"), d.get("task_level")) if isinstance(d, dict) else None  # noqa
        if isinstance(Jk, dict) and isinstance(Jk.get("task_uuid"), str) and isinstance(Jk.get("task_level"), list) \
                and all(isinstance(x, int) for x in Jk["task_level"]) \
                and not any(kk(json.loads(x)) == kk(Jk) for x in tlines[:k]):
            expr = "{'seen': J, 'took': [1, {'x': timedelta(1)}]} if (J.get('task_uuid'), J.get('task_level')) == %r else J" % (
                kk(Jk),)
            out = io.StringIO()
            try:
                EliotFilter(expr, tlines, out).run()
                raise Violation("filter_output", "EliotFilter encoded a timedelta silently")
            except TypeError:
                pass
            except Violation:
                raise
            except Exception as ex:  # noqa
                raise Violation(("filter_abort", {"exc": type(ex).__name__}),
                                "EliotFilter with an unencodable value raised %s: %s" % (type(ex).__name__, ex))
            text = out.getvalue()
            got = text.split("\n")
            frag = got.pop()
            if frag or len(got) != k or any(json.loads(o) != json.loads(ln) for o, ln in zip(got, tlines[:k])):
                raise Violation(("filter_output", {"expr": "fragment" if frag else "before_error"}),
                                "EliotFilter failed to encode the value for input line %d having written %d whole "
                                "lines and the fragment %r" % (k, len(got), frag[:100]))
    elines = [ln for ln, (c, v) in zip(kept, classes) if c == "eliot"]
    out = io.StringIO()
    expr = "SKIP if len(J['task_level']) %% %d == %d else J['task_level']" % (2 + st.choose(2, "mod"), st.choose(2, "rem"))
    EliotFilter(expr, elines, out).run()
    want = []
    for ln in elines:
        J = json.loads(ln)
        r = eval(expr, {"SKIP": None}, {"J": J, "SKIP": None})
        if r is not None:
            want.append(json.dumps(r))
    if out.getvalue() != "".join(w + "\n" for w in want):
        raise Violation("filter_skip", "SKIP predicate %r kept %d lines, expected %d" % (
            expr, out.getvalue().count("\n"), len(want)))
    return (kinds, hashlib.blake2b(stream, digest_size=6).hexdigest())


def format_concurrently(rc, PP, msgs):
    from esim.sched import Sched, SimAbort
    from esim import seams
    want_p = [PP.pretty_format(m) for m in msgs]
    want_c = [PP.compact_format(m) for m in msgs]
    s = Sched(rc.dec.stream("fmt-sched"), p_switch=0.3, gran="line", max_steps=400000, traced=["prettyprint.py"])
    got = {}

    def worker(name, idxs):
        def fn():
            for i in idxs:
                got[(name, i)] = (PP.pretty_format(msgs[i]), PP.compact_format(msgs[i]))
        return fn

    def main():
        half = len(msgs) // 2
        a = s.spawn("F0", worker("F0", list(range(0, len(msgs)))))
        b = s.spawn("F1", worker("F1", list(range(len(msgs) - 1, -1, -1))))
        for t in (a, b):
            s.yield_point("join")
            s.join(t)

    try:
        s.run_main(main)
    except SimAbort:
        raise Violation("no_termination", "formatting threads aborted: %s" % s.abort)
    for a in s.actors:
        if a.exc is not None:
            raise Violation(("format_raised", {"fn": "concurrent", "exc": type(a.exc).__name__}), "%r" % (a.exc,))
    rc.probe("formatted_concurrently")
    rc.info["fmt_switches"] = s.switches
    for (name, i), (p, c) in got.items():
        if p != want_p[i] or c != want_c[i]:
            raise Violation(("concurrent_format", {"fn": "pretty" if p != want_p[i] else "compact"}),
                            "formatted from two threads at once, message %d came out as %r, alone as %r" % (
                                i, (p if p != want_p[i] else c)[:200], (want_p[i] if p != want_p[i] else want_c[i])[:200]))
    # the formatters must still be right afterwards
    for i, m in enumerate(msgs):
        if PP.pretty_format(m) != want_p[i] or PP.compact_format(m) != want_c[i]:
            raise Violation(("concurrent_format", {"fn": "afterwards"}),
                            "after concurrent use message %d is formatted differently" % i)


def filter_concurrently(rc, tlines):
    """Two EliotFilter objects, each on its own input and output, run by two threads at once (an in-process log
    processor with one filter per file): each writes the values of ITS lines."""
    from esim.sched import Sched, SimAbort
    from eliot.filter import EliotFilter
    a_lines = tlines[0::2]
    b_lines = tlines[1::2]
    if not a_lines or not b_lines:
        return
    s = Sched(rc.dec.stream("fmt-sched"), p_switch=0.3, gran="line", max_steps=400000, traced=["filter.py"])
    outs = {"A": io.StringIO(), "B": io.StringIO()}
    exprs = {"A": "J", "B": "SKIP if len(J['task_level']) % 2 else J['task_uuid']"}

    def worker(name, lines):
        def fn():
            EliotFilter(exprs[name], lines, outs[name]).run()
        return fn

    def main():
        acts = [s.spawn("FA", worker("A", a_lines)), s.spawn("FB", worker("B", b_lines))]
        for t in acts:
            s.yield_point("join")
            s.join(t)
    try:
        s.run_main(main)
    except SimAbort:
        raise Violation("no_termination", "filter threads aborted: %s" % s.abort)
    for a in s.actors:
        if a.exc is not None:
            raise Violation(("filter_abort", {"exc": type(a.exc).__name__}), "concurrent filters: %r" % (a.exc,))
    rc.probe("filtered_concurrently")
    want = {"A": "".join(json.dumps(json.loads(x)) + "\n" for x in a_lines)}
    wb = []
    for x in b_lines:
        J = json.loads(x)
        if not len(J["task_level"]) % 2:
            wb.append(json.dumps(J["task_uuid"]) + "\n")
    want["B"] = "".join(wb)
    for name in ("A", "B"):
        got = [json.loads(x) for x in outs[name].getvalue().split("\n") if x]
        exp = [json.loads(x) for x in want[name].split("\n") if x]
        if got != exp:
            raise Violation(("filter_output", {"expr": "concurrent"}),
                            "two filters run at once: filter %s wrote %d values, %d expected; first difference: %r" % (
                                name, len(got), len(exp),
                                next(((g, w_) for g, w_ in zip(got, exp) if g != w_), None)))


def _progress(done, want):
    """Index of the first input line whose expected output is not fully in ``done``."""
    pos = 0
    for i, w in enumerate(want):
        if done[pos:pos + len(w)] != w:
            return i
        pos += len(w)
    return len(want)


FIRST = ["action_type", "message_type", "action_status"]
SKIP = {"timestamp", "task_uuid", "task_level", "message_type", "action_type", "action_status"}


def check_formats(PP, m):
    """What the statement fixes, no more: the output starts with task_uuid, task_level and the UTC timestamp to
    the microsecond; every remaining field is shown by name with its value; type and status come first; the
    compact form is one line of key=<JSON encoding> parts.  (The order of the other fields, the punctuation
    of the header and how pretty_format renders a value are the implementation's.)"""
    level = "/" + "/".join(str(i) for i in m["task_level"])
    want_dt = datetime.datetime(1970, 1, 1) + datetime.timedelta(seconds=m["timestamp"])
    first = [k for k in FIRST if k in m]
    others = sorted(k for k in m if k not in SKIP)
    # ---- pretty
    try:
        p = PP.pretty_format(m)
    except Exception as ex:  # noqa
        raise Violation(("format_raised", {"fn": "pretty_format", "exc": type(ex).__name__}),
                        "pretty_format raised %s: %s on %r" % (type(ex).__name__, ex, m))
    lines = p.split("\n")
    if not lines[0].startswith(m["task_uuid"]) or level not in lines[0][len(m["task_uuid"]):]:
        raise Violation(("pretty", {"part": "header"}), "pretty_format header %r for %s %s" % (lines[0], m["task_uuid"], level))
    _check_ts(lines[1].strip(), want_dt, "pretty")
    where = {}
    for i in range(2, len(lines)):
        ln = lines[i]
        if ln.startswith("  ") and not ln.startswith("   ") and ": " in ln:
            name = ln[2:].split(": ")[0]
            if name in m and name not in where:
                where[name] = i
    missing = [k for k in first + others if k not in where]
    if missing:
        raise Violation(("pretty", {"part": "field_missing_or_misordered"}),
                        "pretty_format does not show field %r:\n%s" % (missing[0], p))
    if first:
        if [where[k] for k in first] != sorted(where[k] for k in first) or \
                (others and max(where[k] for k in first) > min(where[k] for k in others)):
            raise Violation(("pretty", {"part": "field_missing_or_misordered"}),
                            "pretty_format does not show type and status first:\n%s" % p)
    for k in first + others:
        v = m[k]
        if isinstance(v, (int, float, bool)) or v is None or (
                isinstance(v, str) and "\\" not in repr(v) and len(repr(v)) < 38):
            shown = lines[where[k]][len("  %s: " % k):]
            if shown not in (repr(v), str(v), json.dumps(v)):
                raise Violation(("pretty", {"part": "value"}), "pretty_format shows %r as %r" % (v, lines[where[k]]))
    # ---- compact
    try:
        c = PP.compact_format(m)
    except Exception as ex:  # noqa
        raise Violation(("format_raised", {"fn": "compact_format", "exc": type(ex).__name__}),
                        "compact_format raised %s: %s on %r" % (type(ex).__name__, ex, m))
    if "\n" in c:
        raise Violation(("compact", {"part": "newline"}), "compact_format output contains a newline: %r" % c)
    if not c.startswith(m["task_uuid"]) or not c[len(m["task_uuid"]):].lstrip(" ->").startswith(level + " "):
        raise Violation(("compact", {"part": "header"}), "compact_format starts %r" % c[:80])
    rest = c[len(m["task_uuid"]):].lstrip(" ->")[len(level) + 1:]
    ts, _, fields = rest.partition(" ")
    _check_ts(ts, want_dt, "compact")
    # key=value parts, each the JSON encoding of the value (either separator style), type and status first
    todo = {}
    for k in first + others:
        todo[k] = ["%s=%s" % (k, json.dumps(m[k], separators=(",", ":"))), "%s=%s" % (k, json.dumps(m[k]))]
    seen_order = []
    while fields:
        hit = None
        for k, alts in todo.items():
            for alt in alts:
                if fields == alt or fields.startswith(alt + " "):
                    hit = (k, alt)
                    break
            if hit:
                break
        if hit is None:
            raise Violation(("compact", {"part": "fields"}),
                            "compact_format: %r is not a key=<JSON encoding> part of the remaining fields %s" % (
                                fields[:80], sorted(todo)))
        del todo[hit[0]]
        seen_order.append(hit[0])
        fields = fields[len(hit[1]):].lstrip(" ")
    if todo:
        raise Violation(("compact", {"part": "fields"}), "compact_format does not show %s: %r" % (sorted(todo), c))
    if seen_order[:len(first)] != first:
        raise Violation(("compact", {"part": "fields"}), "compact_format does not put type and status first: %r" % c)


def _check_ts(text, want_dt, which):
    if not text.endswith("Z"):
        raise Violation((which, {"part": "timestamp"}), "%s timestamp %r lacks the UTC marker" % (which, text))
    try:
        got = datetime.datetime.fromisoformat(text[:-1])
    except ValueError:
        raise Violation((which, {"part": "timestamp"}), "%s timestamp %r does not parse" % (which, text))
    if abs((got - want_dt).total_seconds()) > 2e-6:
        raise Violation((which, {"part": "timestamp"}), "%s timestamp %r, message time %s" % (which, text, want_dt))
