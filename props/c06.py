"""C06 -- a serialized task id continues the same tree in another thread or
process.

NODES mode: 2-3 simulated processes, each with its own SimFile; a routing
destination writes each message to the file of the node whose actor logged it.
Work is handed over with serialize_task_id/continue_task (bytes and str ids,
multi-hop) and preserve_context; both sides are interleaved under a seeded
schedule; afterwards the nodes' files are concatenated in a drawn order, the
lines optionally shuffled, and parsed.  RACE mode: one preserve_context
callable invoked by 2-4 threads at once with line pre-emption in _action.py.
"""

from esim import prog as P
from esim import oracles as O
from esim import seams
from esim.driver import Violation, AppError
from esim.run import RunCtx, Tap, run_program
from esim.sched import Sched, SimAbort
from esim.simfile import SimFile
from . import base

ID = "C06"
QUICK_RUNS = 6000
THOROUGH_RUNS = 250000
LEVEL = "exploration"
RULE = ("NODES run = one generated program handing work to other threads on other simulated processes "
        "(serialize_task_id/continue_task with bytes or str ids, preserve_context, multi-hop by nesting), executed "
        "under one seeded interleaving, the per-node log files merged in a drawn order with drawn line shuffling, "
        "parsed and compared with the model (remote sub-tree at exactly the reserved position, same task_uuid, ids "
        "pairwise distinct and equal to the model's next free position). RACE run = one preserve_context callable "
        "called by 2-4 threads under a seeded interleaving with pre-emption at every line of _action.py. FORK run (3%) = a "
        "real os.fork(): the child continues the task, the parent drops the callable, both logs merged. distinct = "
        "distinct (program shape | racer count, schedule signature, merge order); non-trivial = >= 1 hand-over "
        "(NODES) / >= 1 switch between the racers' calls (RACE).")
REAL = base.REAL
STUBS = base.STUBS + ["process boundary -> sim nodes (own SimFile, own actors, empty initial context)"]
ASSUMPTIONS = ["each serialized id is continued exactly once (documented contract)",
               "structured programs: the originating action ends after the remote side has finished"]


def prepare():
    base.prepare_common()
    base.monitoring()


def draw_cfg(st):
    mode = ["nodes", "race", "fork"][st.weighted([68, 29, 3], "mode")]
    if mode == "fork":
        return {"mode": "fork", "world": "seq", "how": ["preserve", "task_id", "task_id_text"][st.choose(3, "how")],
                "before": st.choose(3, "before"), "inside": 1 + st.choose(3, "inside"), "after": st.choose(3, "after"),
                "child_raises": st.choose(4, "child_raises") == 3, "merge": st.choose(3, "merge"),
                # both processes also begin new tasks of their own after the fork
                "own_tasks": st.choose(3, "own_tasks")}
    if mode == "race":
        return {"mode": "race", "world": "threads", "n_racers": 2 + st.choose(3, "racers"),
                "p_switch": [0.2, 0.05, 0.5][st.choose(3, "p_switch")],
                "outcome": st.choose(3, "outcome"), "in_action": st.choose(5, "in_action") != 4,
                "late_call": bool(st.choose(2, "late_call")),
                # the function itself (a retry hook, a callback it triggers) invokes the callable it runs under
                "reentrant": st.choose(3, "reentrant") == 2,
                "stagger": st.choose(3, "stagger")}
    cfg = {
        "mode": "nodes", "world": "threads", "late_remote": True, "double_preserve": True,
        "max_ops": [10, 20, 35][st.choose(3, "size")],
        "max_depth": 2 + st.choose(4, "depth"),
        "value_depth": 0,
        "p_more": [0.8, 0.6, 0.9][st.choose(3, "p_more")],
        "p_catch": [0.5, 0.9][st.choose(2, "p_catch")],
        "n_actors": 1 + st.choose(3, "actors"),
        "check_context": True,
        "act_styles": [i for i in range(len(P.ACT_STYLES)) if i in (0, 1) or st.choose(2, "style-on")],
        "msg_apis": [0, 1],
        "p_switch": [0.1, 0.02, 0.3][st.choose(3, "p_switch")],
        "gran": ["op", "line"][st.choose(2, "gran")],
        "traced": ["_action.py"],
        "spawn_kinds": ["remote", "remote", "preserve", "thread"],
        "w_ops": [5, 5, 0, 1, 1, 1, 4],
        "n_nodes": 2 + st.choose(2, "nodes"),
        "shuffle": st.choose(3, "shuffle"),          # 0: file order, 1: per-file reversed, 2: full shuffle
        "wide": st.choose(4, "wide") == 3,
    }
    return cfg


# ----------------------------------------------------------------- NODES mode
def setup(rc, interp):
    e = rc.eliot
    n = rc.cfg["n_nodes"]
    rc.files = [SimFile("node%d" % i, text=bool(i % 2)) for i in range(n)]
    fds = [e.FileDestination(file=f) for f in rc.files]
    rc.file = rc.files[0]
    rc.tap = Tap(rc)
    node_of = {}

    def router(message):
        name = rc.actor_name()
        k = node_of.get(name)
        if k is None:
            # deterministic placement of an actor on a node
            k = node_of[name] = (sum(ord(c) for c in name) * 7 + len(node_of)) % n
        fds[k](message)

    rc.node_of = node_of
    e.add_destinations(router, rc.tap)


def run_nodes(seed, dec, cfg):
    prog = P.generate(dec.stream("prog"), cfg)
    rc = RunCtx(ID, seed, dec, cfg)
    run_program(rc, prog, setup)
    merge_sig = None
    if rc.violation is None:
        try:
            merge_sig = oracle_nodes(rc)
        except Violation as v:
            rc.fail_v(v)
    handovers = len(rc.model.reserved) + sum(1 for a in rc.model.all_actions() if a.remote and a.nid is None)
    rc.probe("handovers", handovers)
    rc.probe("nodes_used", len(set(rc.node_of.values())))
    return base.result(rc, prog, nontrivial=handovers > 0, distinct_extra=merge_sig)


def oracle_nodes(rc):
    import json
    st = rc.dec.stream("merge")
    # (a) ids distinct, and each is the model's next free position of its originating action
    ids = rc.task_ids
    if len(set(ids)) != len(ids):
        raise Violation("duplicate_task_id", "serialize_task_id returned the same id twice: %r" % (ids,))
    start_of = {}
    for r in rc.tap.records:
        n = O.nid_of(r.msg)
        if n is not None and r.msg.get("action_status") == "started":
            start_of[n] = r.msg
    for tid, parent, rnode in rc.model.reserved:
        u, lv = tid.decode("ascii").split("@")
        level = [int(x) for x in lv.split("/") if x]
        if parent.nid is not None and parent.nid in start_of:
            # a position IN the originating action (its uuid, its level + one more component), used by nothing
            # but the continued task -- which number it is depends on what else the origin has logged
            pm = start_of[parent.nid]
            if u != pm["task_uuid"] or level[:-1] != pm["task_level"][:-1] or len(level) != len(pm["task_level"]):
                raise Violation("task_id_position", "serialize_task_id gave %s@%s; the originating action is %s at "
                                "%s" % (u, level, pm["task_uuid"], pm["task_level"][:-1]))
            clash = [r.msg for r in rc.tap.records
                     if r.msg.get("task_uuid") == u and r.msg.get("task_level") == level]
            if clash:
                raise Violation("task_id_position", "serialize_task_id gave %s@%s, a position at which a message was "
                                "logged: %r" % (u, level, clash[0]))
        # (b) the remote side logged under exactly that position, with that uuid
        if rnode.started and rnode.nid in start_of:
            sm = start_of[rnode.nid]
            if sm["task_uuid"] != u or sm["task_level"] != level + [1]:
                raise Violation("remote_misplaced", "continue_task(%s@%s) started at %s %s" % (
                    u, level, sm["task_uuid"], sm["task_level"]))
    # (c) merge the per-node files
    order = list(range(len(rc.files)))
    for i in range(len(order) - 1, 0, -1):
        j = st.choose(i + 1, "file-order")
        order[i], order[j] = order[j], order[i]
    lines = []
    for k in order:
        f = rc.files[k]
        if f.user_buf:
            raise Violation("unflushed", "node %d has unflushed data" % k)
        msgs, raw, tail = O.decode_lines(f.os_cache)
        if tail:
            raise Violation("bad_line", "node %d file does not end with a newline" % k)
        if rc.cfg["shuffle"] == 1:
            msgs.reverse()
        lines.extend(msgs)
    if rc.cfg["shuffle"] == 2:
        for i in range(len(lines) - 1, 0, -1):
            j = st.choose(i + 1, "shuffle")
            lines[i], lines[j] = lines[j], lines[i]
    if len(lines) != len(rc.tap.records):
        raise Violation("lost" if len(lines) < len(rc.tap.records) else "duplicated",
                        "%d lines in the node files, %d messages emitted" % (len(lines), len(rc.tap.records)))
    O.account(lines, rc.model, lenient=True, ends=False)
    O.check_forest(lines, rc.model, order_free=False, lenient=True, fields=False, status=False, require_complete=False)
    return (tuple(order), rc.cfg["shuffle"])


# ------------------------------------------------------------------ RACE mode
def run_race(seed, dec, cfg):
    rc = RunCtx(ID, seed, dec, cfg)
    e = seams.eliot
    from eliot._action import TooManyCalls
    s = Sched(dec.stream("sched"), p_switch=cfg["p_switch"], gran="line", max_steps=400000,
              traced=["_action.py"])
    rc.sched = s
    rc.clock = seams.begin_run(seed)
    tap = Tap(rc)
    rc.tap = tap
    executions = []
    results = {}
    marker = object()
    boom = AppError("from the preserved function")
    tboom = TypeError("unsupported operand inside f")

    def f(x, y=0):
        executions.append((x, y, e.current_action()))
        e.log_message(message_type="inside", who=x)
        s.yield_point("in-f")
        if cfg.get("reentrant") and cfg["in_action"] and len(executions) == 1:
            rc.probe("callable_invoked_from_inside_its_own_call")
            try:
                state["g"](-1)
                state["reentrant"] = "returned"
            except TooManyCalls:
                state["reentrant"] = "too_many"
            except SimAbort:
                raise
            except BaseException as ex:  # noqa
                state["reentrant"] = "raised %s" % type(ex).__name__
        if cfg["outcome"] == 1:
            raise boom
        if cfg["outcome"] == 2:
            raise tboom         # an ordinary bug inside f that happens to be a TypeError
        return marker

    state = {}

    def racer(i):
        def fn():
            for _ in range(i % (cfg["stagger"] + 1)):
                s.force_yield("stagger")
            inv = s.stamp()
            try:
                r = state["g"](i, y=i * 2)
                results[i] = ("ret", r, inv, s.stamp())
            except TooManyCalls as ex:
                results[i] = ("too_many", ex, inv, s.stamp())
            except (AppError, TypeError) as ex:
                results[i] = ("raised", ex, inv, s.stamp())
            except SimAbort:
                raise
            except BaseException as ex:  # noqa
                results[i] = ("other", ex, inv, s.stamp())
        return fn

    def main():
        e.add_destinations(tap)
        if cfg["in_action"]:
            with e.start_action(action_type="origin") as a:
                state["action"] = a
                state["g"] = e.preserve_context(f)
                acts = [s.spawn("R%d" % i, racer(i)) for i in range(cfg["n_racers"])]
                for t in acts:
                    s.yield_point("join")
                    s.join(t)
                if cfg["late_call"]:
                    # one more invocation after every racer has finished (and the first one has failed
                    # or succeeded): still TooManyCalls
                    racer(cfg["n_racers"])()
        else:
            state["g"] = e.preserve_context(f)
            if state["g"] is not f:
                raise Violation("preserve_identity", "preserve_context(f) is not f without a current action")
            acts = [s.spawn("R%d" % i, racer(i)) for i in range(cfg["n_racers"])]
            for t in acts:
                s.yield_point("join")
                s.join(t)

    viol = None
    try:
        try:
            s.run_main(main)
        except SimAbort:
            pass
        except Violation as v:
            viol = v
    finally:
        seams.end_run()
    try:
        if viol is not None:
            raise viol
        if s.deadlock or s.abort:
            raise Violation("no_termination", "run aborted: %s %s" % (s.abort, s.deadlock))
        n = cfg["n_racers"] + (1 if (cfg["late_call"] and cfg["in_action"]) else 0)
        if len(results) != n:
            raise Violation("no_termination", "only %d of %d racers finished" % (len(results), n))
        if not cfg["in_action"]:
            # plain function: every call runs it
            if len(executions) != n:
                raise Violation("executions", "plain f ran %d times for %d calls" % (len(executions), n))
        else:
            if cfg.get("reentrant") and state.get("reentrant") != "too_many":
                raise Violation(("call_outcomes", {"reentrant": True}),
                                "the callable invoked from inside its own (running) call: %s, expected TooManyCalls" % (
                                    state.get("reentrant"),))
            if len(executions) != 1:
                raise Violation(("executions", {"n": min(len(executions), 2)}),
                                "the preserved function ran %d times for %d concurrent calls" % (len(executions), n))
            x, y, cur = executions[0]
            if y != x * 2:
                raise Violation("arguments", "arguments were not passed through: %r %r" % (x, y))
            kinds = sorted(r[0] for r in results.values())
            want = sorted(["raised" if cfg["outcome"] else "ret"] + ["too_many"] * (n - 1))
            bad = [v[1] for v in results.values() if v[0] == "raised" and v[1] is not boom and v[1] is not tboom]
            if bad:
                raise Violation("result", "a different exception came out: %r" % (bad[0],))
            if kinds != want:
                raise Violation("call_outcomes", "racers saw %s, expected %s (%r)" % (
                    kinds, want, {k: (v[0], repr(v[1])[:80]) for k, v in results.items()}))
            win = results[x]
            if win[0] == "ret" and win[1] is not marker:
                raise Violation("result", "return value was not passed through")
            if win[0] == "raised" and win[1] is not (tboom if cfg["outcome"] == 2 else boom):
                raise Violation("result", "exception object was not passed through")
            if win[0] == "too_many":
                raise Violation("call_outcomes", "the call that executed f also raised TooManyCalls")
            # the remote action is a child of the originating action, logged once
            msgs = [r.msg for r in tap.records]
            remote_starts = [m for m in msgs if m.get("action_type") == "eliot:remote_task"
                             and m.get("action_status") == "started"]
            if len(remote_starts) != 1:
                raise Violation("remote_count", "%d remote_task start messages" % len(remote_starts))
            origin = [m for m in msgs if m.get("action_type") == "origin" and m.get("action_status") == "started"][0]
            rs = remote_starts[0]
            # (a position directly inside the originating action; which number is the implementation's)
            if rs["task_uuid"] != origin["task_uuid"] or len(rs["task_level"]) != 2 or rs["task_level"][1] != 1:
                raise Violation("remote_misplaced", "remote task started at %s %s" % (rs["task_uuid"], rs["task_level"]))
            slot = rs["task_level"][:1]
            inside = [m for m in msgs if m.get("message_type") == "inside"]
            if len(inside) != 1 or inside[0]["task_level"][:1] != slot or inside[0]["task_uuid"] != origin["task_uuid"]:
                raise Violation("remote_misplaced", "message logged by f is at %r" % (
                    [(m["task_uuid"], m["task_level"]) for m in inside],))
            from eliot.parse import Parser
            tasks = [t for t in Parser.parse_stream(msgs) if not O._is_library_extra(t.root())]
            if len(tasks) != 1 or not tasks[0].is_complete():
                raise Violation("parse", "merged log does not parse into one complete task")
        # overlap probe: did two racers' calls overlap in time?
        spans = sorted((v[2], v[3]) for v in results.values())
        if any(spans[i + 1][0] < spans[i][1] for i in range(len(spans) - 1)):
            rc.probe("racing_calls_overlapped")
    except Violation as v:
        rc.fail_v(v)
    prog = {"world": "threads", "actors": [[]], "types": {}}
    res = base.result(rc, prog, nontrivial=bool(rc.probes.get("racing_calls_overlapped")),
                      distinct_extra=(cfg["n_racers"], cfg["outcome"], cfg["in_action"]))
    res["sample"] = {"cfg": cfg}
    return res


# ------------------------------------------------------------------ FORK mode
def run_fork(seed, dec, cfg):
    """The hand-over to a real forked process: the child continues the task (calls the preserve_context
    callable / continue_task), the parent never does, drops the callable and carries on.  The two
    processes' logs are merged in a drawn order and must parse as one complete task with the child's
    sub-tree at the reserved position."""
    import contextvars
    import gc
    import json
    import os
    rc = RunCtx(ID, seed, dec, cfg)
    e = seams.eliot
    rc.clock = seams.begin_run(seed)
    class Recorder(object):
        def __init__(self):
            self.records = []

        def __call__(self, message):
            self.records.append(dict(message))
    tap = Recorder()
    child_msgs = []
    viol = None
    try:
        e.add_destinations(tap)

        def f(k):
            for i in range(cfg["inside"]):
                e.log_message(message_type="in-child", i=i)
            if cfg["child_raises"]:
                raise AppError("child failed")
            return k

        with e.start_action(action_type="origin") as a:
            for i in range(cfg["before"]):
                e.log_message(message_type="before", i=i)
            holder = {}
            if cfg["how"] == "preserve":
                holder["h"] = e.preserve_context(f)
            else:
                tid = a.serialize_task_id()
                holder["tid"] = tid.decode("ascii") if cfg["how"] == "task_id_text" else tid
            n0 = len(tap.records)
            r, w = os.pipe()
            pid = os.fork()
            if pid == 0:
                status = 3
                try:
                    os.close(r)
                    seams.reseed_after_fork()
                    for i in range(cfg.get("own_tasks", 0)):
                        # (from a context of its own: a new top-level task, not a child of the inherited action)
                        contextvars.Context().run(e.log_message, message_type="own-task", who="child", i=i)
                    try:
                        if "h" in holder:
                            holder["h"](7)
                        else:
                            with e.Action.continue_task(task_id=holder["tid"]):
                                f(7)
                    except AppError:
                        pass
                    data = json.dumps(tap.records[n0:]).encode("utf-8")
                    while data:
                        data = data[os.write(w, data):]
                    status = 0
                except BaseException:  # noqa
                    status = 4
                finally:
                    os._exit(status)
            os.close(w)
            from esim.run import read_child
            buf, st_, hung = read_child(r, pid, 20.0)
            if hung:
                raise Violation("fork_child_hung", "the forked child that continues the task hung (killed after 20 s)")
            if not (os.WIFEXITED(st_) and os.WEXITSTATUS(st_) == 0):
                from esim.sched import HarnessError
                raise HarnessError("forked child ended with status %r" % (st_,))
            child_msgs = json.loads(buf.decode("utf-8"))
            rc.count_fault("real_fork")
            # the parent never calls its copy; it lets go of it and carries on
            holder.clear()
            gc.collect()
            for i in range(cfg.get("own_tasks", 0)):
                contextvars.Context().run(e.log_message, message_type="own-task", who="parent", i=i)
            for i in range(cfg["after"]):
                e.log_message(message_type="after", i=i)
        gc.collect()
    except Violation as v:
        viol = v
    except Exception as ex:  # noqa
        from esim.sched import HarnessError
        if isinstance(ex, HarnessError):
            raise
        viol = Violation(("raised", {"exc": type(ex).__name__}), "hand-over raised %s: %s" % (type(ex).__name__, ex))
    finally:
        seams.end_run()
    try:
        if viol is not None:
            raise viol
        parent_msgs = json.loads(json.dumps(tap.records))
        st = dec.stream("merge")
        if cfg["merge"] == 0:
            merged = parent_msgs + child_msgs
        elif cfg["merge"] == 1:
            merged = child_msgs + parent_msgs
        else:
            merged = parent_msgs + child_msgs
            for i in range(len(merged) - 1, 0, -1):
                j = st.choose(i + 1, "shuffle")
                merged[i], merged[j] = merged[j], merged[i]
        from eliot.parse import Parser, WrittenAction
        try:
            tasks = list(Parser.parse_stream(merged))
        except Exception as ex:  # noqa
            raise Violation(("parse", {"exc": type(ex).__name__}),
                            "merged logs of parent and child do not parse: %s: %s" % (type(ex).__name__, ex))
        n_own = 2 * cfg.get("own_tasks", 0)
        own_tasks = [t for t in tasks if not isinstance(t.root(), WrittenAction)
                     and t.root().contents.get("message_type") == "own-task"]
        own_ids = set(id(t) for t in own_tasks)
        tasks = [t for t in tasks if id(t) not in own_ids]
        if len(own_tasks) != n_own or len(set(t.root().task_uuid for t in own_tasks)) != n_own:
            raise Violation(("parse", {"what": "own_tasks"}),
                            "the two processes began %d tasks of their own after the fork; the merged logs hold %d "
                            "one-message tasks with %d distinct task uuids" % (
                                n_own, len(own_tasks), len(set(t.root().task_uuid for t in own_tasks))))
        if len(tasks) != 1 or not tasks[0].is_complete():
            raise Violation("parse", "merged logs of parent and child: %d task(s), complete=%s" % (
                len(tasks), [t.is_complete() for t in tasks]))
        root = tasks[0].root()
        # (messages eliot may log on its own account -- message_type "eliot:..." -- are not the program's)
        def own(k):
            mt = getattr(k, "contents", {}).get("message_type") if not isinstance(k, WrittenAction) else None
            return isinstance(mt, str) and mt.startswith("eliot:")
        kids = [k for k in root.children if not own(k)]
        want = ["before"] * cfg["before"] + ["<remote>"] + ["after"] * cfg["after"]
        got = [("<remote>" if isinstance(k, WrittenAction) else k.contents.get("message_type")) for k in kids]
        if got != want:
            raise Violation("remote_misplaced", "children of the originating action are %r, expected %r" % (got, want))
        remote = kids[cfg["before"]]
        rtype = remote.start_message.contents.get("action_type") if remote.start_message is not None else None
        rstatus = remote.end_message.contents.get("action_status") if remote.end_message is not None else None
        inner = [getattr(c, "contents", {}).get("message_type") for c in remote.children if not own(c)]
        if rtype != "eliot:remote_task" or inner != ["in-child"] * cfg["inside"] or \
                rstatus != ("failed" if cfg["child_raises"] else "succeeded"):
            raise Violation("remote_content", "the child's sub-tree is %r %r with children %r" % (rtype, rstatus, inner))
        mine = [m for m in merged if "action_status" in m or not str(m.get("message_type", "")).startswith("eliot:")]
        if len(merged) != len(parent_msgs) + len(child_msgs) or \
                len(mine) != 2 + cfg["before"] + cfg["after"] + 2 + cfg["inside"] + n_own:
            raise Violation(("message_count", {"dir": "more"}),
                            "%d messages in the two logs, the two processes logged %d" % (
                                len(merged), 4 + cfg["before"] + cfg["after"] + cfg["inside"]))
    except Violation as v:
        rc.fail_v(v)
    prog = {"world": "seq", "actors": [[]], "types": {}}
    res = base.result(rc, prog, nontrivial=True,
                      distinct_extra=("fork", cfg["how"], cfg["before"], cfg["inside"], cfg["after"], cfg["merge"]))
    res["sample"] = {"cfg": cfg}
    return res


def run_one(seed, dec):
    cfg = draw_cfg(dec.stream("cfg"))
    if cfg["mode"] == "fork":
        return run_fork(seed, dec, cfg)
    if cfg["mode"] == "race":
        return run_race(seed, dec, cfg)
    return run_nodes(seed, dec, cfg)
