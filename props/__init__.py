"""Per-property checks: each module defines ID, QUICK_RUNS, THOROUGH_RUNS,
RULE, run_one(seed, dec) -> result dict."""
