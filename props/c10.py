"""C10 -- the JSON log file holds one valid, faithful line per message.

Write discipline (an I/O-seam property): observed on SimFile's call log and at
every instant at which no logging call is in progress (os_cache ends with a
newline, nothing sits unflushed) -- SEQ and THREADS worlds, line pre-emption in
_output.py.  Value fidelity (seeded input generation over the same seam, no
fault in it -- same assurance as a property-based test): every decoded line
equals what was logged on the JSON-native domain (-0.0, 64-bit bounds, all
text), rich types in their documented encoding, NaN/inf -> null, custom
json_default; text-mode and binary-mode files receive the same content.
"""

import datetime
import json
import math
import pathlib

from esim import prog as P
from esim import oracles as O
from esim import values as V
from esim.driver import Violation
from esim.run import RunCtx, Tap, run_program
from esim.simfile import SimFile, make_simfile
from . import base

ID = "C10"
QUICK_RUNS = 12000
THOROUGH_RUNS = 500000
LEVEL = "exploration"
RULE = ("one run = one generated program whose field values are drawn from boundary pools of the JSON-native "
        "domain (nesting <= 4) and the documented rich types, logged through a binary-mode, a text-mode and a "
        "custom-json_default FileDestination on SimFiles (SEQ 80%, THREADS 20%); oracle: call log = write(line), "
        "flush() per message, clean file state whenever no logging call is in progress, decoded lines equal the "
        "expected encoding, text bytes == binary bytes. distinct = distinct (program shape, value-kind multiset, "
        "schedule signature); non-trivial = >= 1 non-trivial value (nested, boundary or rich).")
REAL = base.REAL
STUBS = base.STUBS
ASSUMPTIONS = ["value-fidelity half is seeded input generation (no schedule or fault in it)",
               "sets are generated over small ints so that list(set) order is deterministic",
               "aware datetime.time values are not generated (orjson rejects them before the default hook)"]

RICH = ["path", "date", "time", "set", "complex", "nan", "inf", "neg_inf", "datetime", "uuid", "custom",
        "tuple", "frozen_custom", "mixed_set", "none_set", "empty_set", "complex_pz", "complex_nz", "complex_nz2",
        "complex_pz2", "path2", "date2", "time_us", "zero_set", "negzero_set"]


class Custom(object):
    def __init__(self, x):
        self.x = x


def my_default(o):
    if isinstance(o, Custom):
        return {"custom": o.x}
    from eliot.json import json_default
    return json_default(o)


def other_default(o):
    """A second json_default extension with a different encoding of Custom."""
    if isinstance(o, Custom):
        return {"custom_b": o.x}
    from eliot.json import json_default
    return json_default(o)


def make_rich(kind):
    if kind == "custom":
        return Custom(7)
    if kind == "frozen_custom":
        return Custom([1, "a"])
    if kind == "tuple":
        return (1, "a", None)
    # (no strings inside sets: their iteration order would depend on PYTHONHASHSEED)
    if kind == "mixed_set":
        return {1, None}
    if kind == "none_set":
        return {None, 2.5, 7}
    if kind == "empty_set":
        return set()
    # equal-comparing but different values (signed zeros), and more than one value per rich type
    if kind == "complex_pz":
        return complex(0.0, 1.0)
    if kind == "complex_nz":
        return complex(-0.0, 1.0)
    if kind == "complex_pz2":
        return complex(2.5, 0.0)
    if kind == "complex_nz2":
        return complex(2.5, -0.0)
    if kind == "path2":
        return pathlib.Path("relative/dir/../x y")
    if kind == "date2":
        return datetime.date(1, 1, 1)
    if kind == "time_us":
        return datetime.time(23, 59, 59, 999999)
    if kind == "zero_set":
        return {0.0}
    if kind == "negzero_set":
        return {-0.0}
    return None


_orig_make_bad = V.make_bad


def _make(kind):
    r = make_rich(kind)
    return r if r is not None else _orig_make_bad(kind)


def prepare():
    base.prepare_common()
    base.monitoring()
    V.make_bad = _make


def expected(v, custom_ok):
    """The documented JSON encoding of a logged value (custom_ok: False | True | "b" selects the
    json_default extension the destination was given)."""
    if isinstance(v, Custom):
        if not custom_ok:
            raise KeyError("custom")
        return {"custom_b" if custom_ok == "b" else "custom": expected(v.x, custom_ok)}
    if isinstance(v, bool) or v is None or isinstance(v, (int, str)):
        return v
    if isinstance(v, float):
        return v if math.isfinite(v) else None
    if isinstance(v, pathlib.PurePath):
        return str(v)
    if isinstance(v, datetime.datetime):
        return v.isoformat()
    if isinstance(v, (datetime.date, datetime.time)):
        return v.isoformat()
    if isinstance(v, (set, frozenset)):
        return SetOf([expected(x, custom_ok) for x in list(v)])
    if isinstance(v, complex):
        return {"real": v.real, "imag": v.imag}
    if isinstance(v, (list, tuple)):
        return [expected(x, custom_ok) for x in v]
    if isinstance(v, dict):
        return {k: expected(x, custom_ok) for k, x in v.items()}
    import uuid
    if isinstance(v, uuid.UUID):
        return str(v)
    raise KeyError(type(v).__name__)


class SetOf(list):
    """Expected encoding of a set: a JSON list in any order."""


def unorder(v, want):
    """Bring the decoded value into the order of the expected one wherever the expectation is a set."""
    if isinstance(want, SetOf) and isinstance(v, list) and len(v) == len(want):
        from esim.values import canon
        rest = list(v)
        out = []
        for w in want:
            for i, x in enumerate(rest):
                if canon(unorder(x, w)) == canon(_plain(w)):
                    out.append(unorder(rest.pop(i), w))
                    break
            else:
                return v
        return out
    if isinstance(want, list) and isinstance(v, list) and len(v) == len(want):
        return [unorder(x, w) for x, w in zip(v, want)]
    if isinstance(want, dict) and isinstance(v, dict):
        return {k: (unorder(x, want[k]) if k in want else x) for k, x in v.items()}
    return v


def _plain(w):
    if isinstance(w, list):
        return [_plain(x) for x in w]
    if isinstance(w, dict):
        return {k: _plain(x) for k, x in w.items()}
    return w


def draw_cfg(st):
    if st.choose(60, "fork_midwrite") == 59:
        return {"world": "threads", "fork_midwrite": True, "fm_delay": st.choose(12, "fm_delay"),
                "fm_msgs": 2 + st.choose(4, "fm_msgs"), "fm_switch": st.choose(2, "fm_switch")}
    world = ["seq", "threads"][st.weighted([80, 20], "world")]
    cfg = {
        "world": world,
        "max_ops": [6, 15, 30][st.choose(3, "size")],
        "max_depth": 1 + st.choose(3, "depth"),
        "value_depth": 1 + st.choose(4, "vdepth"),
        "p_more": [0.8, 0.6, 0.9][st.choose(3, "p_more")],
        "p_catch": 0.6,
        "n_actors": 1,
        "check_context": False,
        "act_styles": [0, 1],
        "msg_apis": [0, 1],
        "w_ops": [8, 4, 0, 2, 1, 0, 0],
        "gran": "line",
        "traced": ["_output.py"],
        "p_bad": [0.0, 0.2, 0.5][st.choose(3, "p_rich")],
        "bad_kinds": RICH,
        "custom_default": bool(st.choose(2, "custom-default")),
        # which abstract io base class the file objects derive from (none: duck-typed)
        "bin_base": ["plain", "bufferediobase", "rawiobase", "iobase"][st.choose(4, "bin-base")],
        "txt_base": ["plain", "textiobase", "iobase"][st.choose(3, "txt-base")],
        # fault-injecting twin: write/flush of the binary file may raise OSError (ENOSPC, EIO, EAGAIN, EINTR)
        "p_io_error": [0.0, 0.0, 0.0, 0.1][st.choose(4, "p_io")],
    }
    if cfg["p_io_error"] and st.choose(3, "io-threads") != 2:
        cfg["world"] = world = "seq"
    # the first-registered file gets closed under its destination in the middle of the run (log rotation that
    # forgot remove_destination): its destination fails from then on, every other file still gets every line
    if not cfg["p_io_error"] and st.choose(8, "close_first") == 7:
        cfg["w_destop"] = 2
        cfg["close_first"] = True
    if not cfg["custom_default"]:
        cfg["bad_kinds"] = [k for k in RICH if "custom" not in k]
    if world == "threads":
        cfg["n_actors"] = 2
        cfg["p_switch"] = [0.05, 0.2][st.choose(2, "p_switch")]
        cfg["max_ops"] = min(cfg["max_ops"], 12)
    return cfg


def op_close_first(interp, op, env):
    rc = interp.rc
    if not rc.fbin.closed:
        rc.fbin.close()
        rc.count_fault("file_closed_under_destination")


def setup(rc, interp):
    e = rc.eliot
    rc.custom_ops["destop"] = op_close_first
    kw = {"json_default": my_default} if rc.cfg["custom_default"] else {}
    rc.fbin = make_simfile(rc.cfg["bin_base"], "bin", text=False, fault=rc.dec.stream("fault"),
                           p_io_error=rc.cfg.get("p_io_error", 0.0), stats=rc.faults)
    rc.ftxt = make_simfile(rc.cfg["txt_base"], "txt", text=True)
    rc.file = rc.fbin
    rc.tap = Tap(rc, deep=False)
    dests = [e.FileDestination(file=rc.fbin, **kw), e.FileDestination(file=rc.ftxt, **kw), rc.tap]
    rc.fother = None
    if rc.cfg["custom_default"]:
        # a third file whose destination was configured with a different json_default extension
        rc.fother = SimFile("other", text=False)
        dests.append(e.FileDestination(file=rc.fother, json_default=other_default))
    e.add_destinations(*dests)
    rc.dirty_seen = []

    def observer(s, actor, tag):
        # an instant between logging calls: nobody is inside an eliot API call
        if any(a.data.get("call") is not None for a in s.actors):
            return
        rc.probe("quiescent_instants")
        for f in (rc.fbin, rc.ftxt):
            if f.user_buf or (f.os_cache and not f.os_cache.endswith(b"\n")):
                if not rc.dirty_seen:
                    rc.dirty_seen.append((f.name, f.os_cache[-60:], f.user_buf[-60:]))

    rc.sched.observers.append(observer)


def run_fork_midwrite(seed, dec, cfg):
    """A process forks while another of its threads is somewhere inside a logging call (in the write, between
    write and flush, holding whatever the implementation holds there).  The child has only the forking thread;
    a message it logs must still get its line.  Real os.fork() out of a simulated THREADS run; the child is
    given 3 s (SIGALRM) -- a child that waits for something only a thread of the parent could release is killed
    by it, and that is the violation."""
    import os
    import signal
    from esim import seams
    from esim.sched import Sched, SimAbort
    rc = RunCtx(ID, seed, dec, cfg)
    e = rc.eliot
    s = Sched(dec.stream("sched"), p_switch=[0.3, 0.6][cfg["fm_switch"]], gran="line", max_steps=200000,
              traced=["_output.py"])
    rc.sched = s
    rc.clock = seams.begin_run(seed)
    f = SimFile("log")
    res = {}

    def writer():
        for i in range(cfg["fm_msgs"]):
            e.log_message(message_type="c10:w", i=i)

    def forker():
        for _ in range(cfg["fm_delay"]):
            s.force_yield("forker-wait")
        r, w = os.pipe()
        pid = os.fork()
        if pid == 0:
            status = 3
            try:
                os.close(r)
                signal.signal(signal.SIGALRM, signal.SIG_DFL)
                signal.alarm(3)
                s.p_switch = 0.0
                del s.observers[:]
                f2 = SimFile("child-log")
                e.add_destinations(e.FileDestination(file=f2))
                e.log_message(message_type="c10:child", n=1)
                ok = f2.os_cache.count(b"\n") >= 1 and b"c10:child" in f2.os_cache
                os.write(w, b"ok" if ok else b"no-line")
                status = 0
            except BaseException as ex:  # noqa
                try:
                    from esim.sched import ChildWouldBlock
                    os.write(w, b"blocked" if isinstance(ex, ChildWouldBlock) else
                             ("raised %s" % type(ex).__name__).encode())
                except Exception:  # noqa
                    pass
                status = 4
            finally:
                os._exit(status)
        os.close(w)
        from esim.run import read_child
        buf, st_, hung = read_child(r, pid, 15.0)
        if hung:
            buf = b"hung"
        res["said"] = buf.decode("ascii", "replace")
        res["signaled"] = os.WTERMSIG(st_) if os.WIFSIGNALED(st_) else None
        res["exit"] = os.WEXITSTATUS(st_) if os.WIFEXITED(st_) else None
        rc.count_fault("real_fork")

    def main():
        e.add_destinations(e.FileDestination(file=f))
        wa = s.spawn("W", writer)
        fa = s.spawn("F", forker)
        for a in (wa, fa):
            s.yield_point("join")
            s.join(a)
    try:
        try:
            s.run_main(main)
        except SimAbort:
            pass
    finally:
        seams.end_run()
    if res.get("said") == "hung":
        rc.fail("fork_child_blocked", "the child forked while another thread was logging hung (killed after 15 s)")
    elif res.get("said") == "blocked":
        rc.fail("fork_child_blocked", "the child forked while another thread was logging could not log: its call "
                "has to wait for something held by a thread that does not exist in the child")
    elif res.get("signaled") is not None:
        rc.fail("fork_child_blocked", "the child forked while another thread was logging was killed by signal %s "
                "after 3 s: its own logging call did not return (it said %r)" % (res["signaled"], res.get("said")))
    elif res and res.get("said") != "ok":
        rc.fail("fork_child_no_line", "the forked child's message got no line: %r (exit %r)" % (res.get("said"), res.get("exit")))
    elif s.deadlock or s.abort:
        rc.fail("no_termination", "run aborted: %s %s" % (s.abort, s.deadlock))
    prog = {"world": "threads", "actors": [[]], "types": {}}
    out = base.result(rc, prog, nontrivial=True, distinct_extra=("fork_midwrite", cfg["fm_delay"], cfg["fm_msgs"]))
    out["sample"] = {"cfg": cfg}
    return out


def run_one(seed, dec):
    cfg = draw_cfg(dec.stream("cfg"))
    if cfg.get("fork_midwrite"):
        return run_fork_midwrite(seed, dec, cfg)
    prog = P.generate(dec.stream("prog"), cfg)
    rc = RunCtx(ID, seed, dec, cfg)
    rc.faulty_values = True       # values are descriptors to materialise; the model keeps raw objects
    run_program(rc, prog, setup)
    kinds = ()
    if rc.violation is None:
        try:
            kinds = oracle(rc)
        except Violation as v:
            rc.fail_v(v)
    return base.result(rc, prog, nontrivial=bool(kinds), distinct_extra=kinds)


def _squeeze(calls):
    """Call kinds with runs of flushes (and flushes before the first write) reduced to what the statement
    asks for: a write, then a flush."""
    out = []
    for k in calls:
        if k == "flush" and (not out or out[-1] == "flush"):
            continue
        out.append(k)
    return out


def oracle_io_faults(rc):
    """With write/flush errors injected into the binary file only the write discipline is checked, narrowly:
    every write call that was made carries exactly one complete line, no line is handed to the file twice,
    and the healthy text file is unaffected (one write + one flush per message offered to it)."""
    seen = set()
    for c in rc.fbin.calls:
        if c[0] in ("write", "write!"):
            x = c[1]
            # whole lines only (several threads' lines may share one write call; one thread's line is never
            # split over two)
            if not x.endswith(b"\n") or (rc.cfg["world"] == "seq" and b"\n" in x[:-1]):
                raise Violation(("line_shape", {"faults": True}),
                                "after an I/O error a write call carried %r" % x[:160])
            for ln in x.split(b"\n")[:-1]:
                if ln in seen and b"destination_failure" not in ln:
                    raise Violation(("line_twice", {"faults": True}), "the line %r was written twice" % ln[:160])
                seen.add(ln)
    # what a write call accepted in full stays in the file, in call order
    data = rc.fbin.os_cache + rc.fbin.user_buf
    pos = 0
    for c in rc.fbin.calls:
        if c[0] == "write":
            i = data.find(c[1], pos)
            if i < 0:
                raise Violation(("lost", {"faults": True}),
                                "the line %r was accepted by a write call that returned normally and is no longer "
                                "in the file" % (c[1][:120],))
            pos = i + len(c[1])
    n = len(rc.tap.records)
    calls = [c[0] for c in rc.ftxt.calls]
    if rc.cfg["world"] != "seq":
        n_lines = sum(c[1].count(b"\n") for c in rc.ftxt.calls if c[0] == "write")
        if n_lines != n or calls.count("flush") < calls.count("write"):
            raise Violation(("write_discipline", {"faults": True}),
                            "the healthy file got %d messages as %s" % (n, calls[:12]))
    elif [c for c in _squeeze(calls)] != ["write", "flush"] * n:
        raise Violation(("write_discipline", {"faults": True}),
                        "the healthy file got %d messages as %s" % (n, calls[:12]))
    return ("io_faults",)


def oracle(rc):
    if rc.cfg.get("p_io_error") or rc.fbin.closed:
        return oracle_io_faults(rc)
    custom_ok = rc.cfg["custom_default"]
    if rc.dirty_seen:
        name, oc, ub = rc.dirty_seen[0]
        raise Violation("partial_line_visible",
                        "between logging calls file %s ended in %r with %r unflushed" % (name, oc, ub))
    n = len(rc.tap.records)
    for f in (rc.fbin, rc.ftxt):
        # one write per message, each followed by a flush before the next write (SEQ) / before the thread's
        # logging call returns (THREADS: counted, and no unflushed data at any quiescent instant, see
        # dirty_seen); further flushes are the implementation's business
        kinds_ = [c[0] for c in f.calls]
        n_lines = sum(c[1].count(b"\n") for c in f.calls if c[0] == "write")
        if rc.cfg["world"] == "seq":
            bad = kinds_.count("write") != n or kinds_.count("flush") < n
        else:
            # several threads' lines may be handed over in one write call (each line still whole, in a single
            # write): lines are counted, and every write is followed by a flush
            bad = n_lines != n or kinds_.count("flush") < kinds_.count("write")
        if bad:
            raise Violation("write_discipline", "file %s: %d messages but calls %s" % (f.name, n, kinds_[:12]))
        if rc.cfg["world"] == "seq":
            flushed = True
            for i, k in enumerate(kinds_):
                if k == "write":
                    if not flushed:
                        raise Violation("write_discipline", "file %s: two writes with no flush in between: %s" % (
                            f.name, kinds_[max(0, i - 3):i + 2]))
                    flushed = False
                elif k == "flush":
                    flushed = True
            if not flushed:
                raise Violation("write_discipline", "file %s: the last write was not followed by a flush" % f.name)
        calls = f.calls
        for w in calls:
            if w[0] != "write":
                continue
            x = w[1]
            if not x.endswith(b"\n") or (rc.cfg["world"] == "seq" and b"\n" in x[:-1]) or b"\r" in x:
                raise Violation("line_shape", "file %s: a write is not exactly one newline-terminated line: %r" % (
                    f.name, x[:120]))
    if rc.cfg["world"] != "seq":
        if sorted(rc.fbin.os_cache.split(b"\n")) != sorted(rc.ftxt.os_cache.split(b"\n")):
            raise Violation("text_binary_differ", "text-mode and binary-mode files hold different lines")
    elif rc.fbin.os_cache != rc.ftxt.os_cache:
        raise Violation("text_binary_differ", "text-mode and binary-mode files differ: %r vs %r" % (
            _first_diff(rc.fbin.os_cache, rc.ftxt.os_cache)))
    msgs, raw, tail = O.decode_lines(rc.fbin.os_cache)
    if tail or len(msgs) != n:
        raise Violation("line_count", "%d lines (+%r) for %d messages" % (len(msgs), tail[:40], n))
    if rc.fother is not None and rc.cfg["world"] == "seq":
        # same messages, the other extension's encoding
        omsgs, _r, otail = O.decode_lines(rc.fother.os_cache)
        if otail or len(omsgs) != n:
            raise Violation("line_count", "third file: %d lines for %d messages" % (len(omsgs), n))
        import copy
        for got, r in zip(omsgs, rc.tap.records):
            try:
                want = expected(dict(r.msg), "b")
            except KeyError:
                continue
            from esim.values import canon_fields
            if canon_fields(got) != canon_fields(want):
                raise Violation(("per_destination_default", {}),
                                "the destination configured with another json_default wrote %r for a message "
                                "whose encoding under that default is %r" % (got, want))
    # value fidelity: transform the model's expected fields into their documented encoding
    kinds = set()
    for node in rc.model.all_nodes():
        if node.kind == "action":
            node.start = _exp(node.start, custom_ok, kinds)
            node.succ = _exp(node.succ, custom_ok, kinds)
        elif node.fields is not None:
            node.fields = _exp(node.fields, custom_ok, kinds)
    by_nid = {}
    for m in msgs:
        n = O.nid_of(m)
        if n is not None:
            by_nid[n] = m
    for node in rc.model.all_nodes():
        m = by_nid.get(node.nid)
        if m is None:
            continue
        if node.kind == "action":
            node.start = _reorder_sets(node.start, m)
        elif node.fields is not None:
            node.fields = _reorder_sets(node.fields, m)
    O.check_forest(msgs, rc.model, order_free=False, lenient=True, require_complete=False, status=False)
    return tuple(sorted(kinds))


def _reorder_sets(want, got):
    """Sets are written as JSON lists in no particular order: put each expected SetOf into the order the
    decoded line has, if it holds the same elements."""
    from esim.values import canon
    out = {}
    for k, w in want.items():
        g = got.get(k)
        if isinstance(w, SetOf) and isinstance(g, list) and \
                sorted(map(repr, map(canon, g))) == sorted(map(repr, map(canon, map(_plain, w)))):
            out[k] = list(g)
        else:
            out[k] = _plain(w)
    return out


def _exp(d, custom_ok, kinds):
    out = {}
    for k, v in d.items():
        _kinds(v, kinds)
        out[k] = expected(v, custom_ok)
    return out


def _kinds(v, kinds):
    if isinstance(v, (list, tuple, set, frozenset)):
        kinds.add(type(v).__name__)
        for x in v:
            _kinds(x, kinds)
    elif isinstance(v, dict):
        kinds.add("dict")
        for x in v.values():
            _kinds(x, kinds)
    elif isinstance(v, float):
        kinds.add("float" if math.isfinite(v) else "nonfinite")
    elif isinstance(v, int) and not isinstance(v, bool) and abs(v) > 2 ** 31:
        kinds.add("bigint")
    elif isinstance(v, str) and any(ord(c) < 32 or ord(c) > 126 for c in v):
        kinds.add("text")
    elif not isinstance(v, (int, str, bool, type(None))):
        kinds.add(type(v).__name__)


def _first_diff(a, b):
    n = min(len(a), len(b))
    i = next((k for k in range(n) if a[k] != b[k]), n)
    return a[max(0, i - 20): i + 30], b[max(0, i - 20): i + 30]
