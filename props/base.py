"""Helpers shared by the property modules."""

import hashlib
import json
import re

from esim import prog as P
from esim import seams, sched as _sched
from esim.run import RunCtx, Tap, FaultyDest, run_program
from esim.simfile import SimFile

REAL = ["eliot/_action.py", "eliot/_message.py", "eliot/_output.py", "eliot/_errors.py",
        "eliot/_util.py", "eliot/_traceback.py", "eliot/_validation.py", "eliot/json.py",
        "eliot/parse.py", "orjson", "pyrsistent", "boltons", "contextvars", "real OS threads",
        "asyncio.Task/Future"]
STUBS = ["scheduler decision (baton)", "time.time -> sim clock", "uuid4 -> seeded",
         "threading.Lock/RLock/Thread and queue.SimpleQueue inside eliot -> sim versions",
         "file object -> SimFile", "destinations -> taps / faulty callables",
         "asyncio event loop -> virtual-time loop"]

_MON = {"on": None}


def monitoring(basenames=None):
    """Enable LINE events on eliot's code objects once per process."""
    key = "all" if basenames is None else tuple(sorted(basenames))
    if _MON["on"] is None:
        _sched.enable_monitoring(seams.ELIOT_SRC.rstrip("/") + "/eliot", None)
        _MON["on"] = True


def prepare_common():
    import sys
    # generators abandoned while a run is being aborted complain when collected
    sys.unraisablehook = lambda *a: None
    seams.install()
    # The clock and the task-id source must be under the simulator's control (replay); the threading
    # seams are re-bound wherever eliot uses them, but a tree that does not use a lock somewhere is not
    # an error of the harness.
    seams.require_seams("uuid4|uuid")


def result(rc, prog, nontrivial=None, extra_stats=None, distinct_extra=None):
    s = rc.sched
    n_ops, depth = P.count_ops(prog) if prog is not None else (0, 0)
    faults = dict(rc.faults)
    fired = sum(faults.values())
    stats = {
        "steps": s.steps if s else 0,
        "line_events": s.line_events if s else 0,
        "switches": s.switches if s else 0,
        "api_calls": rc.api_calls,
        "ctx_checks": rc.ctx_checks,
        "ops": n_ops,
        "faults": faults,
        "probes": dict(rc.probes, **(s.probes if s else {})),
        "worlds": {prog["world"] if prog else "none": 1},
        "clock_jumps": rc.clock.jumps if rc.clock else 0,
        "sim_time_s": (rc.clock.covered + float(rc.info.get("virtual_time") or 0.0)) if rc.clock else 0,
    }
    if rc.skipped:
        stats["skipped_runs"] = 1
    if extra_stats:
        stats.update(extra_stats)
    if nontrivial is None:
        nontrivial = bool((s and s.switches) or fired or depth >= 2)
    h = hashlib.blake2b(digest_size=8)
    h.update(repr((P.shape_hash(prog) if prog else None, s.switch_sig if s else 0,
                   sorted(faults.items()), distinct_extra)).encode())
    return {
        "violation": rc.violation,
        "stats": stats,
        "nontrivial": nontrivial,
        "distinct": int.from_bytes(h.digest(), "big"),
        "sample": {"cfg": {k: v for k, v in rc.cfg.items() if not callable(v)}, "program": prog},
        "trace_digest": trace_digest(rc),
    }


def trace_digest(rc):
    h = hashlib.blake2b(digest_size=8)
    for t in rc.trace:
        h.update(repr(t).encode())
    for name in ("tap", "tap2"):
        tap = getattr(rc, name, None)
        if tap is not None:
            for r in tap.records:
                h.update(canon_msg(r.msg).encode("utf-8", "replace"))
                h.update(repr((r.seq, r.actor)).encode())
    f = getattr(rc, "file", None)
    if f is not None:
        h.update(re.sub(rb" at 0x[0-9a-fA-F]+", b" at 0xX", f.os_cache))
        h.update(repr(len(f.calls)).encode())
    return h.hexdigest()


def _safe_default(o):
    try:
        r = repr(o)
        if " at 0x" in r:
            return "<%s>" % type(o).__name__
        return r
    except BaseException:  # noqa
        return "<%s>" % type(o).__name__


_ADDR = re.compile(r" at 0x[0-9a-fA-F]+")


def canon_msg(m):
    """Canonical text of a message; memory addresses inside reprs (they end up
    in failure reports' renderings) are masked."""
    try:
        out = json.dumps(m, sort_keys=True, default=_safe_default)
    except BaseException:  # noqa
        if isinstance(m, dict):
            out = repr(sorted((str(k), _safe_default(v)) for k, v in m.items()))
        else:
            out = _safe_default(m)
    if " at 0x" in out:
        out = _ADDR.sub(" at 0xX", out)
    return out
