"""C01 -- emitted logs parse back to exactly the executed tree.

Fault-free configuration of the simulator: whole pipeline (public API in all
styles -> Logger.write -> Destinations.send -> FileDestination -> bytes on a
SimFile -> json.loads per line -> Parser.parse_stream) refined against the
reference model, in SEQ, THREADS (several writers into one file, pre-emption at
eliot source lines) and ASYNC worlds.
"""

from esim import prog as P
from esim import oracles as O
from esim.driver import Violation
from esim.run import RunCtx, Tap, run_program
from esim.simfile import SimFile
from . import base

ID = "C01"
QUICK_RUNS = 15000
THOROUGH_RUNS = 600000
LEVEL = "exploration"
RULE = ("one run = one generated logging program (all API styles, exits ok/raise for 12 exception "
        "classes, JSON-native field values) executed in a SEQ/THREADS/ASYNC world under a seeded "
        "schedule; the JSON file is parsed back and compared with the reference model. distinct = "
        "distinct (program shape hash, schedule signature) pairs; non-trivial = nesting depth >= 2 "
        "or >= 1 context switch.")
REAL = base.REAL
STUBS = base.STUBS
ASSUMPTIONS = ["A1: one file.write call is atomic w.r.t. other writers",
               "programs do not log inside an action after finishing it, do not enter the same "
               "Action object twice, and avoid eliot's reserved field names (API misuse, outside the property)"]


def prepare():
    base.prepare_common()
    base.monitoring()


def draw_cfg(st):
    w = st.weighted([60, 25, 15], "world")
    world = ["seq", "threads", "async"][w]
    cfg = {
        "world": world,
        "wide": st.choose(4, "wide") == 3,
        "late_remote": True,
        "max_ops": [12, 30, 60][st.choose(3, "size")],
        "max_depth": 2 + st.choose(5, "depth"),
        "value_depth": st.choose(4, "vdepth"),
        "p_more": [0.75, 0.6, 0.9][st.choose(3, "p_more")],
        "p_catch": [0.5, 0.9, 0.1][st.choose(3, "p_catch")],
        "text_file": bool(st.choose(2, "textfile")),
        "n_actors": 1,
        "p_clock_jump": [0.0, 0.05][st.choose(2, "clockjump")],
        "check_context": True,
        "w_handler": st.choose(2, "handler"),
    }
    # swarm: switch some op kinds / styles off for this run
    styles = [i for i in range(len(P.ACT_STYLES)) if i == 0 or st.choose(3, "style-on")]
    apis = [i for i in range(len(P.MSG_APIS)) if i == 0 or st.choose(3, "api-on")]
    cfg["act_styles"] = styles
    cfg["msg_apis"] = apis
    w_ops = [6, 6, 1, 2, 1, 0, 0]
    if world == "threads":
        cfg["n_actors"] = 2 + st.choose(3, "actors")
        cfg["p_switch"] = [0.1, 0.02, 0.3, 0.5][st.choose(4, "p_switch")]
        cfg["gran"] = ["line", "op"][st.choose(2, "gran")]
        cfg["spawn_kinds"] = ["thread", "remote", "preserve"]
        w_ops = [6, 6, 1, 2, 1, 1, 1 + st.choose(2)]
        cfg["max_ops"] = min(cfg["max_ops"], 30)
    elif world == "async":
        cfg["n_actors"] = 1 + st.choose(3, "actors")
        cfg["spawn_kinds"] = ["task"]
        w_ops = [6, 6, 1, 2, 1, 3, 2]
    else:
        if st.choose(3, "seq-remote") == 2:
            cfg["spawn_kinds"] = ["remote", "preserve", "thread"]
            w_ops = [6, 6, 1, 2, 1, 0, 1]
    cfg["w_ops"] = w_ops
    # re-entry of context()/run() of open actions; exception extractors registered before and during the run
    cfg["w_reenter"] = st.choose(3, "reenter")
    # (not with real threads: the model reads the registry when it predicts a message, the registration
    # of another thread could fall between that and eliot's own lookup)
    cfg["w_xreg"] = st.choose(2, "xreg") if world != "threads" else 0
    cfg["xreg_fields_only"] = True        # fault-free configuration: no raising extractors
    cfg["extractable"] = ["ValueError", "AppError", "AppSubError", "OSError", "KeyError", "Exception", "AppBase"]
    ex = []
    for _ in range(st.choose(3, "n-extractors")):
        cname = cfg["extractable"][st.choose(len(cfg["extractable"]), "xcls")]
        if cname not in [c for c, _m in ex]:
            ex.append([cname, "fields"])
    cfg["extractors"] = ex
    return cfg


def setup(rc, interp):
    e = rc.eliot
    f = SimFile("log", text=rc.cfg["text_file"])
    rc.file = f
    rc.tap = Tap(rc)
    rc.fd = e.FileDestination(file=f)
    e.add_destinations(rc.fd, rc.tap)
    rc.setup_extractors(rc.cfg.get("extractors", []))


def run_one(seed, dec):
    cfg = draw_cfg(dec.stream("cfg"))
    prog = P.generate(dec.stream("prog"), cfg)
    rc = RunCtx(ID, seed, dec, cfg)
    run_program(rc, prog, setup)
    if rc.violation is None:
        try:
            oracle(rc)
        except Violation as v:
            rc.fail_v(v)
    return base.result(rc, prog)


def oracle(rc):
    if rc.file.user_buf:
        raise Violation("unflushed", "data left unflushed after the last logging call returned")
    msgs, raw, tail = O.decode_lines(rc.file.os_cache)
    if tail:
        raise Violation("bad_line", "file does not end with a newline: %r" % tail[:100])
    if len(msgs) != len(rc.tap.records):
        raise Violation("lost" if len(msgs) < len(rc.tap.records) else "duplicated",
                        "%d lines in the file, %d messages offered to the tap" % (
                            len(msgs), len(rc.tap.records)))
    O.check_forest(msgs, rc.model, order_free=False)
