#!/venv/bin/python
"""Determinism self-test (MANIFEST.setup_cmd) and deeper variants.

    selftest.py --setup            quick: every claimed property, 40 run indices
    selftest.py --deep [N]         N (default 300) run indices per property
    selftest.py --digests <Cnn> N  (internal) print the run digests as JSON

For every claimed property the same run indices are executed (a) across 16
fork workers, (b) across 3 fork workers, (c) in a fresh interpreter with a
different PYTHONHASHSEED; the run digests (decisions taken, stats, verdict,
trace of observable events) must agree everywhere.  Any difference is a
harness error that blocks all checks.
"""

import json
import os
import subprocess
import sys

HERE = os.path.dirname(os.path.abspath(__file__))
sys.path.insert(0, HERE)
sys.dont_write_bytecode = True


def claimed():
    with open(os.path.join(HERE, "MANIFEST.json")) as f:
        return [c["property_id"] for c in json.load(f)["checks"]]


def digests(pid, n, workers):
    from esim import runner, seams
    seams.import_eliot()
    mod = runner.load_prop(pid)
    if hasattr(mod, "prepare"):
        mod.prepare()
    m = runner.run_batch(pid, 0, n, workers, 600, want_digests=True)
    if m["harness_errors"]:
        raise SystemExit("HARNESS-ERROR in %s run %s:\n%s" % (pid, m["harness_errors"][0][0], m["harness_errors"][0][1]))
    return {str(k): v for k, v in m["digests"].items()}, m


def main():
    args = sys.argv[1:]
    if args and args[0] == "--digests":
        d, _ = digests(args[1], int(args[2]), 2)
        print("DIGESTS " + json.dumps(d, sort_keys=True))
        return 0
    n = 40
    if args and args[0] == "--deep":
        n = int(args[1]) if len(args) > 1 else 300
    for mod in ("orjson", "pyrsistent", "boltons", "zope.interface"):
        __import__(mod)
    bad = 0
    for pid in claimed():
        a, m = digests(pid, n, 16)
        b, _ = digests(pid, n, 3)
        env = dict(os.environ)
        env["PYTHONHASHSEED"] = "4242"
        env["PYTHONDONTWRITEBYTECODE"] = "1"
        p = subprocess.run([sys.executable, os.path.join(HERE, "selftest.py"), "--digests", pid, str(n)],
                           capture_output=True, text=True, env=env, timeout=900)
        c = None
        for line in p.stdout.splitlines():
            if line.startswith("DIGESTS "):
                c = json.loads(line[8:])
        if c is None:
            print("HARNESS-ERROR: %s fresh-interpreter run failed:\n%s" % (pid, (p.stdout + p.stderr)[-3000:]))
            bad += 1
            continue
        diff = [k for k in a if a[k] != b.get(k) or a[k] != c.get(k)]
        if diff or len(a) != n:
            print("NONDETERMINISM in %s: %d of %d run indices differ (e.g. %s)" % (pid, len(diff), n, diff[:5]))
            bad += 1
        else:
            print("selftest %s: %d runs x 3 executions (16 workers, 3 workers, fresh interpreter with another "
                  "PYTHONHASHSEED) agree" % (pid, n))
    return 2 if bad else 0


if __name__ == "__main__":
    sys.exit(main())
