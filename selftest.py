#!/venv/bin/python
"""Determinism self-test (MANIFEST.setup_cmd) and deeper variants.

    selftest.py --setup            quick: every claimed property, 40 run indices
    selftest.py --deep [N]         N (default 300) run indices per property
    selftest.py --digests <Cnn> N  (internal) print the run digests as JSON

For every claimed property the same run indices are executed (a) across 16
fork workers, (b) across 3 fork workers, (c) in a fresh interpreter with a
different PYTHONHASHSEED; the run digests (decisions taken, stats, verdict,
trace of observable events) must agree everywhere.  Any difference is a
harness error that blocks all checks.
"""

import json
import os
import subprocess
import sys

HERE = os.path.dirname(os.path.abspath(__file__))
sys.path.insert(0, HERE)
sys.dont_write_bytecode = True


def claimed():
    with open(os.path.join(HERE, "MANIFEST.json")) as f:
        return [c["property_id"] for c in json.load(f)["checks"]]


def digests(pid, n, workers):
    from esim import runner, seams
    seams.import_eliot()
    mod = runner.load_prop(pid)
    if hasattr(mod, "prepare"):
        mod.prepare()
    m = runner.run_batch(pid, 0, n, workers, 600, want_digests=True)
    if m["harness_errors"]:
        raise SystemExit("HARNESS-ERROR in %s run %s:\n%s" % (pid, m["harness_errors"][0][0], m["harness_errors"][0][1]))
    return {str(k): v for k, v in m["digests"].items()}, m


def primitives(n_seeds=400):
    """The simulator's own synchronisation primitives against their contracts, under many seeded
    schedules: a bounded buffer over SimCondition (RLock and Lock flavour, re-entrant holder), a
    SimSemaphore-guarded section, a SimEvent hand-shake, a SimQueue pipeline.  A bug here would show up
    as a false deadlock or a false race in every check that meets such a primitive in eliot."""
    from esim.dec import Decisions
    from esim import sched as S
    bad = []
    for seed in range(n_seeds):
        dec = Decisions(seed=seed)
        sc = S.Sched(dec.stream("sched"), p_switch=[0.2, 0.6, 0.05][seed % 3], gran="op", max_steps=200000)
        cond = S.SimCondition(S.SimLock() if seed % 2 else None)
        sem = S.SimSemaphore(2)
        ev = S.SimEvent()
        q = S.SimQueue()
        buf, out, inside, log, holders = [], [], [0], [], [0]
        n_items, cap = 12, 2

        def producer(k):
            def fn():
                for i in range(n_items):
                    with cond:
                        if seed % 2 == 0:
                            cond.acquire()          # re-entrant holder: wait() must give up both levels
                        while len(buf) >= cap:
                            cond.wait()
                        holders[0] += 1
                        assert holders[0] == 1, "two threads inside the condition's lock"
                        sc.yield_point("in-cs")
                        buf.append((k, i))
                        sc.yield_point("in-cs")
                        holders[0] -= 1
                        cond.notify_all()
                        if seed % 2 == 0:
                            cond.release()
            return fn

        def consumer():
            for _ in range(2 * n_items):
                with cond:
                    ok = cond.wait_for(lambda: bool(buf))
                    assert ok
                    holders[0] += 1
                    assert holders[0] == 1, "two threads inside the condition's lock"
                    sc.yield_point("in-cs")
                    out.append(buf.pop(0))
                    holders[0] -= 1
                    cond.notify_all()
                with sem:
                    inside[0] += 1
                    assert inside[0] <= 2, "semaphore let %d in" % inside[0]
                    sc.yield_point("in-sem")
                    inside[0] -= 1
            ev.set()
            q.put("done")

        def waiter():
            assert ev.wait() is True
            log.append(("after-event", len(out)))
            assert q.get() == "done"

        def main():
            acts = [sc.spawn("p0", producer(0)), sc.spawn("p1", producer(1)), sc.spawn("c", consumer),
                    sc.spawn("w", waiter)]
            for a in acts:
                sc.yield_point("join")
                sc.join(a)
        try:
            sc.run_main(main)
        except S.SimAbort:
            pass
        errs = [repr(a.exc) for a in sc.actors if a.exc is not None]
        per = {0: [i for k, i in out if k == 0], 1: [i for k, i in out if k == 1]}
        if sc.deadlock or sc.abort or errs or per[0] != list(range(n_items)) or per[1] != list(range(n_items)) \
                or log != [("after-event", 2 * n_items)]:
            bad.append((seed, sc.deadlock, sc.abort, errs[:2], len(out)))
    if bad:
        print("HARNESS-ERROR: simulator primitives misbehave in %d of %d schedules, e.g. %r" % (len(bad), n_seeds, bad[0]))
        return False
    print("selftest primitives: SimCondition/SimSemaphore/SimEvent/SimQueue/SimLock/SimRLock contracts hold in "
          "%d seeded schedules" % n_seeds)
    return True


def main():
    args = sys.argv[1:]
    if args and args[0] == "--digests":
        d, _ = digests(args[1], int(args[2]), 2)
        print("DIGESTS " + json.dumps(d, sort_keys=True))
        return 0
    n = 40
    if args and args[0] == "--deep":
        n = int(args[1]) if len(args) > 1 else 300
    for mod in ("orjson", "pyrsistent", "boltons", "zope.interface"):
        __import__(mod)
    bad = 0
    if not primitives():
        bad += 1
    for pid in claimed():
        a, m = digests(pid, n, 16)
        b, _ = digests(pid, n, 3)
        env = dict(os.environ)
        env["PYTHONHASHSEED"] = "4242"
        env["PYTHONDONTWRITEBYTECODE"] = "1"
        p = subprocess.run([sys.executable, os.path.join(HERE, "selftest.py"), "--digests", pid, str(n)],
                           capture_output=True, text=True, env=env, timeout=900)
        c = None
        for line in p.stdout.splitlines():
            if line.startswith("DIGESTS "):
                c = json.loads(line[8:])
        if c is None:
            print("HARNESS-ERROR: %s fresh-interpreter run failed:\n%s" % (pid, (p.stdout + p.stderr)[-3000:]))
            bad += 1
            continue
        diff = [k for k in a if a[k] != b.get(k) or a[k] != c.get(k)]
        if diff or len(a) != n:
            print("NONDETERMINISM in %s: %d of %d run indices differ (e.g. %s)" % (pid, len(diff), n, diff[:5]))
            bad += 1
        else:
            print("selftest %s: %d runs x 3 executions (16 workers, 3 workers, fresh interpreter with another "
                  "PYTHONHASHSEED) agree" % (pid, n))
    return 2 if bad else 0


if __name__ == "__main__":
    sys.exit(main())
