#!/bin/bash
# Re-run every independently seeded change against the checks recorded as catching it (scratch copies, ELIOT_SRC);
# prints the ones that are no longer caught.  ~40 minutes on 16 cores.
cd "$(dirname "$0")/.."
for d in seeded/*/; do
  i=$(basename $d)
  checks=$(/venv/bin/python -c "
import json;m=json.load(open('seeded/$i/meta.json'))
print(' '.join(c for c,v in m.get('checks',{}).items() if v.get('caught')))")
  [ -z "$checks" ] && { echo "$i: (recorded as not caught)"; continue; }
  out=$(tools/run_seeded.py --scratch $i $checks 2>&1)
  bad=$(echo "$out" | grep -E "exit [02] " | cut -c1-120)
  [ -n "$bad" ] && echo "$i: NO LONGER CAUGHT: $bad"
done
echo "regression done"
