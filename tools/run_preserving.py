#!/venv/bin/python
"""Behaviour-preserving rewrites: every check must stay silent on them.

    tools/run_preserving.py --import <ID>      copy /tmp/seeded_out/<ID> into /verif/seeded_preserving/<ID>
    tools/run_preserving.py <ID> [div]         run ALL claimed checks (quick size // div, default 4) against a scratch
                                               copy of /repo + the rewrite (ELIOT_SRC); record the results in meta.json
    tools/run_preserving.py --readme           regenerate seeded_preserving/README.md
"""
import json
import os
import re
import shutil
import subprocess
import sys

VERIF = os.path.dirname(os.path.dirname(os.path.abspath(__file__)))
# VERIF_PRESERVING_DIR=seeded_permitted selects the round-6 set (permitted changes of observable behaviour)
SD = os.path.join(VERIF, os.environ.get("VERIF_PRESERVING_DIR", "seeded_preserving"))


def sh(cmd, **kw):
    try:
        return subprocess.run(cmd, shell=True, capture_output=True, text=True, timeout=1500, **kw)
    except subprocess.TimeoutExpired as ex:
        class R(object):
            returncode = 124
            stdout = "TIMEOUT after 1500 s\n"
            stderr = ""
        return R()


def claimed():
    return [c["property_id"] for c in json.load(open(os.path.join(VERIF, "MANIFEST.json")))["checks"]]


def import_(sid):
    src = "/tmp/seeded_out/%s" % sid
    dst = os.path.join(SD, sid)
    os.makedirs(dst, exist_ok=True)
    for f in ("patch.diff", "demo.py"):
        shutil.copy(os.path.join(src, f), os.path.join(dst, f))
    meta = json.load(open(os.path.join(src, "meta.json")))
    confirm = open(os.path.join(src, "confirm.txt")).read() if os.path.exists(os.path.join(src, "confirm.txt")) else ""
    meta["written_by"] = "sub-agent that saw only the property text and a scratch worktree (nothing from /verif)"
    meta["base_commit"] = "066252b"
    meta["confirmed_by_hand"] = {
        "what_was_run": "tools/confirm_seeded.sh %s: demo.py (a stress exercise of the property) on unchanged /repo and on "
                        "the rewritten worktree, both must exit 0; the repository's whole suite on the rewritten worktree" % sid,
        "output": confirm.strip().split("\n"),
    }
    meta.setdefault("checks", {})
    json.dump(meta, open(os.path.join(dst, "meta.json"), "w"), indent=1)
    print("imported", dst)


def run(sid, div):
    d = os.path.join(SD, sid)
    scratch = "/tmp/preserving_scratch_%s" % sid
    sh("rm -rf %s && mkdir -p %s && cp -r /repo/eliot %s/eliot" % (scratch, scratch, scratch))
    r = sh("cd %s && patch -p1 < %s" % (scratch, os.path.join(d, "patch.diff")))
    if r.returncode:
        sys.exit("patch does not apply: " + r.stdout + r.stderr)
    out = {}
    try:
        for c in claimed():
            q = int(sh("cd %s && /venv/bin/python -c \"import importlib;print(importlib.import_module('props.%s').QUICK_RUNS)\"" % (
                VERIF, c.lower())).stdout.strip())
            env = dict(os.environ, VERIF_SHRINK_S="10", ELIOT_SRC=scratch, VERIF_REPLAY_DIR=scratch + "/replays")
            p = sh("cd %s && /venv/bin/python check.py %s --runs %d" % (VERIF, c, max(200, q // div)), env=env)
            lines = p.stdout.strip().split("\n")
            summary = lines[-1] if lines else ""
            known = [l for l in lines if l.startswith("KNOWN-FINDING")]
            viol = [l for l in lines if l.startswith("VIOLATION")]
            out[c] = {"exit": p.returncode, "runs": max(200, q // div), "violation_lines": len(viol),
                      "known_finding_lines": len(known), "silent": p.returncode == 0 and not viol}
            print(c, "exit", p.returncode, "|", summary[:200])
    finally:
        sh("rm -rf %s" % scratch)
    mp = os.path.join(d, "meta.json")
    meta = json.load(open(mp))
    meta["checks"] = out
    json.dump(meta, open(mp, "w"), indent=1)


def readme():
    ids = sorted(x for x in os.listdir(SD) if os.path.isdir(os.path.join(SD, x)))
    rows = []
    silent = 0
    for i in ids:
        m = json.load(open(os.path.join(SD, i, "meta.json")))
        ch = m.get("checks", {})
        loud = [c for c, v in ch.items() if not v.get("silent") and c not in m.get("expected_alarms", {})]
        expected = ["%s (%s)" % (c, why) for c, why in m.get("expected_alarms", {}).items()]
        if ch and not loud:
            silent += 1
        verdict = ("all %d checks silent" % len(ch)) if (ch and not loud and not expected) else (
            ("all other checks silent; rightly alarming: " + "; ".join(expected)) if (ch and not loud) else (
                "ALARM from: %s" % ", ".join(loud) if ch else "not run"))
        rows.append("| %s | %s | %s | %s |" % (i, (m.get("summary", "")[:520]).replace("|", "\\|").replace("\n", " "),
                                              verdict, m.get("note", "").replace("|", "\\|")))
    with open(os.path.join(SD, "README.md"), "w") as f:
        if os.path.basename(SD) == "seeded_permitted":
            f.write("# Permitted changes of observable behaviour (over-strict-oracle test)\n\n"
                    "Rounds 6 (`Cnnv`), 7 (`Cnnm`) and 8 (`Cnnj`) asked each sub-agent (property text + scratch worktree only) for a change that alters OBSERVABLE "
                    "behaviour in a respect its property leaves open, with the property still holding -- and to argue from the "
                    "words of the statement why. A check of that property which alarms on such a change demands more than the "
                    "property states. Each was confirmed by hand (its demo holds on both trees and shows the behavioural "
                    "difference; the suite still gives 404 passed), then all 18 checks were run against it "
                    "(`VERIF_PRESERVING_DIR=seeded_permitted tools/run_preserving.py <id>`). The agents saw one property only, "
                    "so a change can be within its own property and still break another one: those alarms are listed as "
                    "rightly alarming, with the reason.\n\n"
                    "%d of %d leave every check silent apart from those. The last column says which over-strict oracles "
                    "each one exposed first.\n\n"
                    "| id | change | checks | what it exposed in /verif |\n|---|---|---|---|\n" % (silent, len(ids)))
            f.write("\n".join(rows) + "\n")
            print("README: %d permitted changes, %d without an unexpected alarm" % (len(ids), silent))
            return
        f.write("# Behaviour-preserving rewrites (false-alarm test)\n\n"
                "Round 5 asked each sub-agent (property text + scratch worktree only, nothing from /verif) for a *substantial "
                "re-implementation* of the mechanism behind its property under which the property still holds: other data "
                "structures, other synchronisation primitives, other import style, renamed privates, different decomposition. "
                "Each was confirmed by hand (`tools/confirm_seeded.sh`: its own stress demo passes on both trees, the whole "
                "suite still gives 404 passed) and then **all 18 checks** were run against it (`tools/run_preserving.py <id>`: "
                "scratch copy selected with ELIOT_SRC, quick size / 4). A check that alarms or exits 2 on one of these is a "
                "defect of the check.\n\n"
                "%d of %d rewrites leave every check silent (as of the last run recorded in each meta.json). What they "
                "found in the machinery before that is in the last column.\n\n"
                "| id | rewrite | checks | what it exposed in /verif |\n|---|---|---|---|\n" % (silent, len(ids)))
        f.write("\n".join(rows) + "\n")
    print("README: %d rewrites, %d silent" % (len(ids), silent))


if __name__ == "__main__":
    if sys.argv[1] == "--import":
        import_(sys.argv[2])
    elif sys.argv[1] == "--readme":
        readme()
    else:
        run(sys.argv[1], int(sys.argv[2]) if len(sys.argv) > 2 else 4)
