#!/bin/bash
# Re-run every claimed quick check against /repo so that the committed evidence comes from /repo itself.
cd "$(dirname "$0")/.."
for p in $(/venv/bin/python -c "import json;print(' '.join(c['property_id'] for c in json.load(open('MANIFEST.json'))['checks']))"); do
  /venv/bin/python check.py $p --tier quick 2>&1 | tail -1 | cut -c1-220
done
