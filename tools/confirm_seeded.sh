#!/bin/bash
# confirm_seeded.sh <ID>: confirm a sub-agent's seeded change independently.
#  - demo on the unchanged tree (/repo) must exit 0, on the changed worktree exit 1
#  - the repository's suite on the changed worktree must still give 404 passed
ID=$1
OUT=/tmp/seeded_out/$ID
WT=/tmp/wt/$ID
{
echo "patch applies to /repo HEAD: $(git -C /repo apply --check $OUT/patch.diff 2>&1 && echo yes)"
( cd /repo && timeout 120 /venv/bin/python $OUT/demo.py >/tmp/seeded_out/$ID/demo_unchanged.txt 2>&1; echo "demo on unchanged /repo: exit $?" )
( cd $WT && timeout 120 /venv/bin/python $OUT/demo.py >/tmp/seeded_out/$ID/demo_changed.txt 2>&1; echo "demo on changed worktree: exit $?" )
tail -1 /tmp/seeded_out/$ID/demo_changed.txt | cut -c1-300
( cd $WT && timeout 1500 /venv/bin/python -m pytest -q -p no:cacheprovider --timeout=900 --continue-on-collection-errors 2>&1 | tail -1 )
} > $OUT/confirm.txt 2>&1
