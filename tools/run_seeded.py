#!/venv/bin/python
"""Run checks against an independently seeded change, the way the brief says:
apply the patch to /repo, run, undo straight afterwards.

    tools/run_seeded.py <ID> [<check id> ...]     (default: the check of the same id)
    tools/run_seeded.py --import <ID>             copy /tmp/seeded_out/<ID> into /verif/seeded/<ID>

Results are merged into /verif/seeded/<ID>/meta.json under "checks".
"""
import json
import os
import re
import shutil
import subprocess
import sys

VERIF = os.path.dirname(os.path.dirname(os.path.abspath(__file__)))


def sh(cmd, **kw):
    try:
        return subprocess.run(cmd, shell=True, capture_output=True, text=True, timeout=1500, **kw)
    except subprocess.TimeoutExpired:
        class R(object):
            returncode = 124
            stdout = "TIMEOUT after 1500 s\n"
            stderr = ""
        return R()


def import_(sid):
    src = "/tmp/seeded_out/%s" % sid
    dst = os.path.join(VERIF, "seeded", sid)
    os.makedirs(dst, exist_ok=True)
    for f in ("patch.diff", "demo.py"):
        shutil.copy(os.path.join(src, f), os.path.join(dst, f))
    meta = json.load(open(os.path.join(src, "meta.json")))
    confirm = open(os.path.join(src, "confirm.txt")).read() if os.path.exists(os.path.join(src, "confirm.txt")) else ""
    meta["written_by"] = "sub-agent that saw only the property text and a scratch worktree (nothing from /verif)"
    meta["base_commit"] = {"p": "7e5edd0", "q": "7e5edd0", "r": "066252b", "s": "066252b", "t": "066252b", "u": "066252b", "v": "066252b", "w": "066252b", "m": "066252b", "n": "066252b", "j": "066252b", "k": "066252b"}.get(sid[-1:], "9168f63")
    meta["confirmed_by_hand"] = {
        "what_was_run": "tools/confirm_seeded.sh %s: demo.py on unchanged /repo and on the changed worktree; "
                        "the repository's whole suite on the changed worktree" % sid,
        "output": confirm.strip().split("\n"),
    }
    meta.setdefault("checks", {})
    json.dump(meta, open(os.path.join(dst, "meta.json"), "w"), indent=1)
    print("imported", dst)


def run_scratch(sid, checks):
    """Same, but against a scratch copy of /repo's tree with the patch applied (ELIOT_SRC), for when
    something else is using /repo (a background thorough run).  The scratch copy is removed."""
    d = os.path.join(VERIF, "seeded", sid)
    patch = os.path.join(d, "patch.diff")
    scratch = "/tmp/seeded_scratch_%s" % sid
    sh("rm -rf %s && mkdir -p %s && cp -r /repo/eliot %s/eliot" % (scratch, scratch, scratch))
    r = sh("cd %s && patch -p1 < %s" % (scratch, patch))
    base_note = "scratch copy of /repo HEAD + patch (ELIOT_SRC)"
    if r.returncode:
        # written against an earlier /repo commit and overlapping a later fix: use that commit's tree
        base = json.load(open(os.path.join(d, "meta.json"))).get("base_commit", "9168f63")
        sh("rm -rf %s && mkdir -p %s && git -C /repo archive %s eliot | tar -x -C %s" % (scratch, scratch, base, scratch))
        r = sh("cd %s && patch -p1 < %s" % (scratch, patch))
        base_note = "scratch copy of /repo at %s (the commit it was written against) + patch (ELIOT_SRC)" % base
        if r.returncode:
            sys.exit("patch does not apply: " + r.stdout + r.stderr)
    out = {}
    try:
        for c in checks:
            env = dict(os.environ, VERIF_SHRINK_S="20", ELIOT_SRC=scratch, VERIF_REPLAY_DIR=scratch + "/replays")
            p = sh("cd %s && /venv/bin/python check.py %s --tier quick" % (VERIF, c), env=env)
            lines = p.stdout.strip().split("\n")
            summary = lines[-1] if lines else ""
            m = re.search(r"violations: (.*)$", summary)
            viol = [l for l in lines if l.startswith("VIOLATION")]
            out[c] = {"exit": p.returncode, "violation_lines": len(viol), "how": base_note,
                      "signatures": m.group(1)[:600] if m else "", "caught": p.returncode == 1 and bool(viol)}
            print(c, "exit", p.returncode, "|", summary[:300])
    finally:
        sh("rm -rf %s" % scratch)
    mp = os.path.join(d, "meta.json")
    meta = json.load(open(mp))
    meta.setdefault("checks", {}).update(out)
    json.dump(meta, open(mp, "w"), indent=1)


def run(sid, checks):
    d = os.path.join(VERIF, "seeded", sid)
    patch = os.path.join(d, "patch.diff")
    st = sh("git -C /repo status --porcelain")
    if st.stdout.strip():
        sys.exit("refusing: /repo has uncommitted changes:\n" + st.stdout)
    r = sh("git -C /repo apply %s" % patch)
    if r.returncode:
        sys.exit("patch does not apply: " + r.stderr)
    out = {}
    try:
        for c in checks:
            env = dict(os.environ, VERIF_SHRINK_S="20")
            p = sh("cd %s && /venv/bin/python check.py %s --tier quick" % (VERIF, c), env=env)
            lines = p.stdout.strip().split("\n")
            summary = lines[-1] if lines else ""
            m = re.search(r"violations: (.*)$", summary)
            viol = [l for l in lines if l.startswith("VIOLATION")]
            out[c] = {"exit": p.returncode, "violation_lines": len(viol),
                      "signatures": m.group(1)[:600] if m else "", "caught": p.returncode == 1 and bool(viol)}
            print(c, "exit", p.returncode, "|", summary[:300])
    finally:
        sh("git -C /repo checkout -- .")
        sh("rm -f %s/replays/*.json" % VERIF)
    st = sh("git -C /repo status --porcelain")
    assert not st.stdout.strip(), "could not restore /repo"
    mp = os.path.join(d, "meta.json")
    meta = json.load(open(mp))
    meta.setdefault("checks", {}).update(out)
    json.dump(meta, open(mp, "w"), indent=1)


if __name__ == "__main__":
    if sys.argv[1] == "--import":
        import_(sys.argv[2])
    elif sys.argv[1] == "--scratch":
        run_scratch(sys.argv[2], sys.argv[3:] or [sys.argv[2]])
    else:
        sid = sys.argv[1]
        run(sid, sys.argv[2:] or [sid])
