#!/bin/bash
# eval_seeded_tmp.sh <SID> <check> [<check>...]: run checks against /repo's tree + /tmp/seeded_out/<SID>/patch.diff (scratch copy)
# RUNS_DIV=n divides each check's quick size by n (used to sweep all checks over a behaviour-preserving rewrite)
SID=$1; shift
S=/tmp/seeded_scratch_$SID
rm -rf $S; mkdir -p $S; cp -r /repo/eliot $S/eliot
( cd $S && patch -s -p1 < /tmp/seeded_out/$SID/patch.diff ) || { echo "patch failed"; exit 1; }
for c in "$@"; do
  extra=""
  if [ -n "$RUNS_DIV" ]; then
    q=$(cd /verif && /venv/bin/python -c "import importlib;print(importlib.import_module('props.$(echo $c | tr A-Z a-z)').QUICK_RUNS // $RUNS_DIV)")
    extra="--runs $q"
  fi
  echo "== seeded $SID vs $c: $(cd /verif && ELIOT_SRC=$S VERIF_REPLAY_DIR=$S/replays VERIF_SHRINK_S=5 timeout 900 /venv/bin/python check.py $c $extra 2>&1 | grep -E '^(C[0-9]|HARNESS)' | cut -c1-330 | tr '\n' ' ')"
done
rm -rf $S
