#!/bin/bash
cd /verif
for m in $(grep -o '^@mutant("[a-z0-9_]*"' tools/mutant.py | sed 's/@mutant("//;s/"//'); do
  p=$(echo ${m:0:3} | tr a-z A-Z)
  d=/tmp/mut_$m
  rm -rf $d
  tools/mutant.py $m $d >/dev/null 2>&1 || { echo "$m: APPLY FAILED"; continue; }
  out=$(ELIOT_SRC=$d VERIF_REPLAY_DIR=$d/replays VERIF_SHRINK_S=3 timeout 900 /venv/bin/python check.py $p --runs 2000 2>&1 | grep -E "^(C[0-9]+:|HARNESS)" | cut -c1-260)
  echo "$m | $out"
  rm -rf $d
done

