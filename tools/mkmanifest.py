#!/venv/bin/python
"""Regenerate /verif/MANIFEST.json from the table below (and validate it)."""

import json
import os

HERE = os.path.dirname(os.path.dirname(os.path.abspath(__file__)))
PY = "/venv/bin/python"

# id -> (technique, level text, level note, design ref)
CLAIMED = {
    "C01": ("deterministic simulation, fault-free configuration: seeded programs in SEQ/THREADS/ASYNC "
            "worlds, refinement of file->Parser output against a reference model",
            "Seeded exploration: every run generates a logging program (all API styles, 12 exception "
            "classes, JSON-native values), executes it against the real eliot under a seeded scheduler "
            "(baton-passed real threads pre-empted at eliot source lines, or a virtual-time asyncio loop), "
            "parses the simulated file back with the real Parser and compares with a model built "
            "independently of eliot's bookkeeping. Sampling, not proof.",
            "Trusted: the reference model/interpreter in /verif/esim/driver.py, SimFile (A1: one write "
            "call is atomic), json.loads. Pre-emption only at Python line boundaries in eliot's frames.",
            "DESIGN.md 3/C01"),
    "C02": ("deterministic simulation with destination-fault injection: seeded programs x interleavings x "
            "failure masks of the other destinations; placement invariants checked on what a healthy tap saw",
            "Seeded exploration of programs in SEQ/THREADS/ASYNC worlds with 0-3 destinations raising on drawn "
            "masks; on the tap's records: field types, run-wide uniqueness of (task_uuid, task_level), positions "
            "1..n with start at 1 and end at n, children extend parents, first-use order equals level order.",
            "Trusted: Tap/FaultyDest (harness), call attribution by calling thread, the interpreter's model for "
            "'action finished' and reserved task ids. One open known finding (known_findings.json).",
            "DESIGN.md 3/C02"),
    "C03": ("deterministic simulation with fault injection: body exits by raise of 14 exception classes / "
            "asyncio cancellation at drawn virtual times / generator close, raising extractors; exact accounting "
            "and refinement against the reference model",
            "Seeded exploration (SEQ + virtual-time ASYNC): exactly one start and one end per action at a tap, "
            "truthful status, class path, text, nearest-MRO extractor fields, identity of the propagated "
            "exception object, no messages from repeated finish().",
            "Trusted: interpreter/model; exception identity is observed in the interpreter's own frames.",
            "DESIGN.md 3/C03"),
    "C04": ("deterministic simulation: seeded nestings of the three scoping constructs with every exit kind "
            "(incl. cancellation and generator close) in SEQ and virtual-time ASYNC worlds; identity oracle on "
            "current_action() after every step",
            "Seeded exploration: after every operation and at every scope entry/exit current_action() must be "
            "the very Action object on top of the model's stack; in the parsed log every action and message of the program is the child of the action the model says (structure only: no field values, no outcomes; messages eliot logs on its own account may come on top).",
            "Trusted: interpreter/model stack discipline.",
            "DESIGN.md 3/C04"),
    "C05": ("deterministic simulation over schedules: baton-passed real threads pre-empted at eliot source lines, "
            "virtual-time asyncio tasks with drawn delays; per-actor context identity oracle, parent/child structure of the parsed log against the model, "
            "cross-schedule equality of canonical forests",
            "Seeded exploration of interleavings of structured concurrent programs (threads, preserve_context, "
            "serialize/continue_task, asyncio tasks); 10% of programs re-executed under 3 more schedules.",
            "Trusted: scheduler (one baton), interpreter/model. Pre-emption at Python line boundaries only.",
            "DESIGN.md 3/C05"),
    "C07": ("deterministic simulation with fault injection at every seam eliot offers: raising destinations "
            "(masks), failing serializers, omitted declared fields, failing extractors, unencodable values, "
            "OSError from the file; oracle: every API call returns within a step budget and raises nothing",
            "Seeded exploration of fault mixes over generated programs (SEQ 90%, THREADS 10%); a third of the runs "
            "switch exactly one fault source on. Hangs are found by a per-call line-event budget, not a timeout.",
            "Trusted: the interpreter's wrapper around every eliot call; exception identity observed in its own "
            "frames. Not injected: BaseException from destinations, MemoryError, reserved field names.",
            "DESIGN.md 3/C07"),
    "C08": ("deterministic simulation with fault injection: failure masks over the call sequences of 1-6 "
            "destinations, registration changes between messages; executable reference model of the fan-out",
            "Seeded exploration; per destination the exact sequence of offers (raising offers included) must equal "
            "the model's; exactly one report per raising offer of a non-report, none for reports; report content.",
            "Trusted: FaultyDest/Tap recording, the 40-line fan-out model in props/c08.py.",
            "DESIGN.md 3/C08"),
    "C10": ("deterministic simulation at the file seam: SimFile call log and a quiescence observer under a seeded "
            "schedule (write discipline); seeded boundary-value generation across the same seam (value fidelity)",
            "Seeded exploration. The write-discipline half (single write + flush per message, no partial line "
            "visible whenever no logging call is in progress, text == binary content) is an I/O-seam property "
            "decided on SimFile in SEQ and THREADS worlds. The value-fidelity half has no schedule or fault in it: "
            "it is seeded input generation through the simulator's pipeline -- the assurance of a property-based test.",
            "Trusted: SimFile, json.loads as the reference decoder, the 30-line table of documented encodings.",
            "DESIGN.md 3/C10"),
    "C11": ("deterministic simulation with crash injection: crash points drawn over every yield point (eliot source "
            "lines, inside write, between write and flush, after flush), durable state = OS cache (+ torn prefix), "
            "oracle on the frozen disk and on Parser output",
            "Seeded exploration of (program, schedule, crash point) with up to 8 crash points per run; a crash is the "
            "observation of the simulated disk at that instant; acknowledged = the logging call had returned.",
            "Trusted: SimFile's two-level (user buffer / OS cache) model of process death; A1. No fsync / power loss.",
            "DESIGN.md 3/C11"),
    "C12": ("deterministic simulation: exact reference model over seeded histories of log/add/remove/global-field "
            "operations; seeded interleavings (line pre-emption in _output.py) of logging threads with the first "
            "add_destinations",
            "Seeded exploration; sequential histories are checked for exact per-destination delivery sequences, "
            "the concurrent hand-over for no loss, no duplication, per-thread order.",
            "Trusted: the 40-line buffering/registration model, Tap recording, scheduler.",
            "DESIGN.md 3/C12"),
    "C16": ("deterministic simulation over schedules: 2-4 baton-passed threads on one MemoryLogger / one "
            "FileDestination, pre-empted at every line of _output.py and every lock operation; interval-based "
            "history oracle",
            "Seeded exploration of interleavings of write/validate/serialize/flush_tracebacks/reset and of concurrent "
            "file writes; invoke/return stamps from the global event sequence decide what must / may be recorded.",
            "Trusted: scheduler, SimLock (logical blocking), SimFile with A1. C code is atomic (GIL).",
            "DESIGN.md 3/C16"),
    "C06": ("deterministic simulation of simulated processes: per-node SimFiles behind a routing destination, work "
            "handed over by serialize_task_id/continue_task/preserve_context under a seeded interleaving, merge "
            "order and line shuffling drawn; race of 2-4 threads on one preserve_context callable at line granularity",
            "Seeded exploration of hand-over programs (multi-hop, bytes/str ids), interleavings of both sides, merge "
            "orders of the separate log files, and races between concurrent invocations of one preserved callable.",
            "Trusted: scheduler, router destination (harness), interpreter/model. Ids are continued exactly once.",
            "DESIGN.md 3/C06"),
    "C09": ("deterministic simulation of the log transport between writer and parser: seeded reorder / interleave / "
            "drop of recorded message sets; differential oracle across orders plus reference model",
            "Seeded exploration: 8 delivery orders and 5 dropped subsets per recorded message set; final parser state "
            "equal across orders, completion reported exactly at the step delivering the last message, partial trees "
            "equal an independent reconstruction.",
            "Trusted: the 30-line reconstruction in props/c11.py, the reference model for the full set.",
            "DESIGN.md 3/C09"),
    "C13": ("deterministic simulation with serializer-fault injection: counting, non-idempotent, randomly failing "
            "field serializers and omitted declared fields through the production Logger; per-call oracle",
            "Seeded exploration of type definitions x values x failing subsets for start / success / failure / "
            "stand-alone messages and direct Logger.write; identity snapshots of caller data, exactly-once "
            "serialization, containment and placement of the two failure reports.",
            "Trusted: the per-call expectations in props/c13.py; the current context is read from observed messages.",
            "DESIGN.md 3/C13"),
    "C15": ("deterministic simulation of generator drivers: seeded interleavings of next/send/throw/close over 1-4 "
            "decorated generators from changing contexts; per-step context identity oracle, transparency by object "
            "identity, parent/child structure of the parsed log against the model",
            "Seeded exploration of generator bodies x driver schedules; the wrapper under eliot.twisted.inline_callbacks "
            "is exercised directly (Twisted absent).",
            "Trusted: the scripted bodies' own bookkeeping of which body is running (PEP 380 delegation written out).",
            "DESIGN.md 3/C15"),
    "C17": ("deterministic simulation supplies the histories (SEQ/THREADS/ASYNC runs captured by one MemoryLogger); "
            "differential post-run oracle: helpers vs Parser vs model",
            "Seeded exploration; a post-run history check with no fault in it: the simulator contributes interleaved, "
            "multi-task, remote-sub-task message lists that the literal lists of test_testing never have.",
            "Trusted: Parser as the second implementation, the model for counts and outcomes.",
            "DESIGN.md 3/C17"),
    "C19": ("deterministic simulation over schedules and destination faults: real ThreadedWriter and its _reader on "
            "sim threads, sim queue recording put order, stand-ins for the two Twisted names, stop request at a drawn "
            "step, repeated start/stop cycles; deadlock detection for the liveness half",
            "Seeded exploration of interleavings of 1-3 producers, the reader thread and the stop request with failure "
            "masks on the wrapped destination over 1-3 cycles; sequence equality against the queue's put order, thread "
            "identity, completion of stopService's deferred.",
            "Trusted: the Twisted stand-ins in /verif/stubs (Service toggles `running`; deferToThreadPool fires when the "
            "callable returns), SimQueue/SimThread, scheduler.",
            "DESIGN.md 3/C19"),
    "C20": ("deterministic simulation of damaged storage for the readers: logs produced by simulated runs, then torn, "
            "glued, bit-flipped and spliced with foreign lines by drawn storage faults, fed to the real command entry "
            "point and EliotFilter; per-message format check on everything the runs emitted",
            "Seeded exploration. The command-line half is a reader facing damaged storage (fault sequences over the "
            "stored log); the formatting half is seeded input generation over emitted messages, reported as such.",
            "Trusted: the line classifier in props/c20.py (which also removes lines outside the quantifier), json.loads, "
            "the field-order rule restated in check_formats.",
            "DESIGN.md 3/C20"),
}

NOT_YET = "check not built yet in this commit (planned, see DESIGN.md section 3)"
NOT_APPLICABLE = {
    "C14": "pure predicate of (type definition, message dict): no schedule, clock, I/O, fault or second "
           "party in the statement; input generation is a different technique (DESIGN.md section 4)",
    "C18": "per-call pure function of (signature, arguments, decorator options); its quantifier (all "
           "parameter kinds and names) is input enumeration, not simulation (DESIGN.md section 4)",
}
ALL = ["C%02d" % i for i in range(1, 21)]


def main():
    checks = []
    for pid in ALL:
        if pid in CLAIMED:
            tech, text, note, ref = CLAIMED[pid]
            checks.append({
                "property_id": pid,
                "quick_cmd": "%s check.py %s --tier quick" % (PY, pid),
                "thorough_cmd": "%s check.py %s --tier thorough" % (PY, pid),
                "evidence_file": "evidence/%s.json" % pid,
                "replay_cmd_template": "%s check.py --replay {path}" % PY,
                "engine": "esim",
                "level_claimed": {"category": "exploration", "text": text, "design_ref": ref},
                "level_note": note,
                "technique": tech,
            })
    na = []
    for pid in ALL:
        if pid in CLAIMED:
            continue
        na.append({"property_id": pid, "reason": NOT_APPLICABLE.get(pid, NOT_YET)})
    doc = {
        "version": 1,
        "setup_cmd": "%s selftest.py --setup" % PY,
        "hooks": {
            "guard": "ELIOT_VERIF",
            "enable": "none needed: every seam is an argument, a module global or a stdlib entry point "
                      "re-bound from outside by /verif/esim/seams.py; the guard name is reserved only",
            "baseline_off_cmd": "cd /repo && /venv/bin/python -m pytest -ra -q -p no:cacheprovider "
                                "--timeout=900 --continue-on-collection-errors",
            "source_commits": [],
            "add_only": True,
        },
        "engines": [{
            "name": "esim",
            "path": "esim/",
            "serves_properties": sorted(CLAIMED),
            "kind_free_text": "deterministic simulator: decision streams, baton scheduler over real threads "
                              "with sys.monitoring line pre-emption, virtual-time asyncio loop, SimFile, "
                              "fault injection, delta-debugging shrinker, replay files",
        }],
        "checks": checks,
        "not_applicable": na,
        "notes": "Run as `/venv/bin/python check.py <id> --tier quick|thorough` in /verif; VERIF_SEED selects the "
                 "seed; ELIOT_SRC (default /repo) selects the tree. Exit 2 = harness error (never a pass).",
    }
    path = os.path.join(HERE, "MANIFEST.json")
    with open(path, "w") as f:
        json.dump(doc, f, indent=1)
        f.write("\n")
    try:
        import jsonschema
        schema = json.load(open("/root/.vp/MANIFEST.schema.json"))
        jsonschema.validate(doc, schema)
        print("MANIFEST.json valid; claimed:", sorted(CLAIMED))
    except ImportError:
        print("MANIFEST.json written (jsonschema not available to validate)")


if __name__ == "__main__":
    main()
