#!/venv/bin/python
"""Apply a named sensitivity mutant to a scratch copy of eliot.

    tools/mutant.py <name> [dir]     -> creates <dir>/eliot (default /tmp/mut), prints the dir
Run a check against it with ELIOT_SRC=<dir>.  Remove the dir afterwards.
"""
import os, shutil, sys

MUTANTS = {}

def mutant(name, path):
    def deco(f):
        MUTANTS[name] = (path, f)
        return f
    return deco

def rep(s, a, b, count=1):
    assert a in s, "pattern not found: %r" % a[:60]
    return s.replace(a, b, count)

@mutant("c01_child_no_increment", "eliot/_action.py")
def _(s):
    return rep(s, "        newLevel = self._nextTaskLevel()\n        return self.__class__(",
               "        newLevel = (self._last_child.next_sibling() if self._last_child else self._task_level.child())\n        return self.__class__(")

@mutant("c05_global_context", "eliot/_action.py")
def _(s):
    return rep(s, '_ACTION_CONTEXT = ContextVar("eliot.action")', '''class _GlobalVar:
    def __init__(self):
        self.v = None
    def get(self, d=None):
        return self.v if self.v is not None else d
    def set(self, v):
        old = self.v
        self.v = v
        return old
    def reset(self, tok):
        self.v = tok
_ACTION_CONTEXT = _GlobalVar()''')

@mutant("c05_thread_local_context", "eliot/_action.py")
def _(s):
    return rep(s, '_ACTION_CONTEXT = ContextVar("eliot.action")', '''import threading as _thr
class _LocalVar:
    def __init__(self):
        self.l = _thr.local()
    def get(self, d=None):
        v = getattr(self.l, "v", None)
        return v if v is not None else d
    def set(self, v):
        old = getattr(self.l, "v", None)
        self.l.v = v
        return old
    def reset(self, tok):
        self.l.v = tok
_ACTION_CONTEXT = _LocalVar()''')

@mutant("c04_context_resets_to_none", "eliot/_action.py")
def _(s):
    return rep(s, '''            yield self
        finally:
            _ACTION_CONTEXT.reset(parent)''', '''            yield self
        finally:
            _ACTION_CONTEXT.set(None)''')

@mutant("c04_run_resets_to_none", "eliot/_action.py")
def _(s):
    return rep(s, '''            return f(*args, **kwargs)
        finally:
            _ACTION_CONTEXT.reset(parent)''', '''            return f(*args, **kwargs)
        finally:
            _ACTION_CONTEXT.set(None)''')

@mutant("c03_baseexception_is_success", "eliot/_action.py")
def _(s):
    return rep(s, "        self.finish(exception)\n", "        self.finish(exception if isinstance(exception, Exception) else None)\n")

@mutant("c03_skip_finish_for_baseexception", "eliot/_action.py")
def _(s):
    return rep(s, "        self.finish(exception)\n",
               "        if exception is None or isinstance(exception, Exception):\n            self.finish(exception)\n")

@mutant("c03_second_finish_logs", "eliot/_action.py")
def _(s):
    return rep(s, "        if self._finished:\n            return\n", "")

@mutant("c03_mro_farthest", "eliot/_errors.py")
def _(s):
    return rep(s, "for klass in getmro(exception.__class__):", "for klass in reversed(getmro(exception.__class__)):")

@mutant("c02_finish_before_reset", "eliot/_action.py")
def _(s):
    return rep(s, '''        _ACTION_CONTEXT.reset(self._parent_token)
        self._parent_token = None
        self.finish(exception)''', '''        self.finish(exception)
        _ACTION_CONTEXT.reset(self._parent_token)
        self._parent_token = None''')

@mutant("c07_safeunicode_no_except", "eliot/_util.py")
def _(s):
    return rep(s, "    try:\n        return str(o)\n    except:", "    try:\n        return str(o)\n    except ZeroDivisionError:")

@mutant("c07_report_try_removed", "eliot/_output.py")
def _(s):
    return rep(s, """            except:
                # Nothing we can do here, raising exception to caller will""", """            except ZeroDivisionError:
                # Nothing we can do here, raising exception to caller will""")

@mutant("c07_dest_except_narrow", "eliot/_output.py")
def _(s):
    return rep(s, """                dest(message)
            except Exception as e:""", """                dest(message)
            except (ValueError, TypeError, KeyError) as e:""")

@mutant("c07_serializer_except_narrow", "eliot/_output.py")
def _(s):
    return rep(s, """                serializer.serialize(dictionary)
        except:
            write_traceback(self)""", """                serializer.serialize(dictionary)
        except KeyError:
            write_traceback(self)""")

@mutant("c07_extractor_except_removed", "eliot/_errors.py")
def _(s):
    return rep(s, """                try:
                    return extractor(exception)
                except:""", """                try:
                    return extractor(exception)
                except ZeroDivisionError:""")

@mutant("c08_report_reports", "eliot/_output.py")
def _(s):
    return rep(s, "                if not is_destination_error_message:\n                    errors.append(e)",
               "                errors.append(e)")

@mutant("c08_stop_after_first_failure", "eliot/_output.py")
def _(s):
    return rep(s, "                if not is_destination_error_message:\n                    errors.append(e)",
               "                if not is_destination_error_message:\n                    errors.append(e)\n                break")

@mutant("c08_report_once_per_message", "eliot/_output.py")
def _(s):
    return rep(s, "        for exception in errors:\n", "        for exception in errors[:1]:\n")

@mutant("c08_reverse_order", "eliot/_output.py")
def _(s):
    return rep(s, "        for dest in destinations:\n            try:", "        for dest in reversed(destinations):\n            try:")

@mutant("c16_no_lock_write", "eliot/_output.py")
def _(s):
    return rep(s, "    @exclusively\n    def write(self, dictionary, serializer=None):", "    def write(self, dictionary, serializer=None):")

@mutant("c16_no_lock_reset", "eliot/_output.py")
def _(s):
    return rep(s, "    @exclusively\n    def reset(self):", "    def reset(self):")

@mutant("c16_no_lock_flush", "eliot/_output.py")
def _(s):
    return rep(s, "    @exclusively\n    def flushTracebacks(self, exceptionType):", "    def flushTracebacks(self, exceptionType):")

@mutant("c16_two_writes_per_line", "eliot/_output.py")
def _(s):
    return rep(s, """        self.file.write(
            self._dumps(message, default=self._json_default) + self._linebreak
        )""", """        self.file.write(self._dumps(message, default=self._json_default))
        self.file.write(self._linebreak)""")

@mutant("c10_no_flush", "eliot/_output.py")
def _(s):
    return rep(s, "        self.file.flush()\n", "        pass\n")

@mutant("c12_buffer_999", "eliot/_output.py")
def _(s):
    return rep(s, "while len(self.messages) > 1000 and", "while len(self.messages) > 999 and")

@mutant("c12_any_added_never_set", "eliot/_output.py")
def _(s):
    return rep(s, "            self._any_added = True\n", "            pass\n")

@mutant("c12_globals_once", "eliot/_output.py")
def _(s):
    return rep(s, "        message.update(self._globalFields)\n", "        for _k, _v in self._globalFields.items():\n            message.setdefault(_k, _v)\n")

@mutant("c12_original_handover", "eliot/_output.py")
def _(s):
    a = s.index("            with buffer._lock:\n                # Re-deliver buffered messages")
    b = s.index("        else:\n            self._destinations.extend(destinations)")
    return s[:a] + """            buffered_messages = buffer.messages
            self._destinations = []
            self._destinations.extend(destinations)
            for message in buffered_messages:
                self.send(message)
""" + s[b:]

@mutant("c11_flush_before_write", "eliot/_output.py")
def _(s):
    return rep(s, """        self.file.write(
            self._dumps(message, default=self._json_default) + self._linebreak
        )
        self.file.flush()""", """        self.file.flush()
        self.file.write(
            self._dumps(message, default=self._json_default) + self._linebreak
        )""")

@mutant("c11_flush_every_other", "eliot/_output.py")
def _(s):
    return rep(s, "        self.file.flush()\n", "        if len(message) % 2:\n            self.file.flush()\n")

@mutant("c10_text_ensure_ascii", "eliot/json.py")
def _(s):
    return rep(s, '        return _dumps_bytes(o, default=default).decode("utf-8")',
               '        import json as _j\n        return _j.dumps(_j.loads(_dumps_bytes(o, default=default)))')

@mutant("c10_float_repr", "eliot/json.py")
def _(s):
    return rep(s, '    from orjson import dumps as _dumps_bytes\n',
               '    from orjson import dumps as _orjson_dumps\n\n    def _dumps_bytes(o, default=None):\n'
               '        import json as _j\n        return _j.dumps(_j.loads(_orjson_dumps(o, default=default)), ensure_ascii=False).encode("utf-8")\n')

@mutant("c06_lock_to_flag", "eliot/_action.py")
def _(s):
    s = rep(s, "    called = threading.Lock()\n", "    called = [False]\n")
    return rep(s, "        if not called.acquire(False):\n            raise TooManyCalls(f)\n",
               "        if called[0]:\n            raise TooManyCalls(f)\n        called[0] = True\n")

@mutant("c06_serialize_no_reserve", "eliot/_action.py")
def _(s):
    return rep(s, """            self._identification[TASK_UUID_FIELD], self._nextTaskLevel().toString()
        ).encode("ascii")""", """            self._identification[TASK_UUID_FIELD],
            (self._last_child.next_sibling() if self._last_child else self._task_level.child()).toString()
        ).encode("ascii")""")

@mutant("c06_continue_new_uuid", "eliot/_action.py")
def _(s):
    return rep(s, "            logger, uuid, TaskLevel.fromString(task_level), action_type, _serializers\n",
               "            logger, str(uuid4()), TaskLevel.fromString(task_level), action_type, _serializers\n")

@mutant("c06_fromstring_drops_last", "eliot/_action.py")
def _(s):
    return rep(s, '        return cls(level=[int(i) for i in string.split("/") if i])',
               '        lv = [int(i) for i in string.split("/") if i]\n        return cls(level=lv if len(lv) < 3 else lv[:-1] + [lv[-1] % 9 + 1])')

@mutant("c09_complete_ge", "eliot/parse.py")
def _(s):
    return rep(s, "and (len(node.children) == node.end_message.task_level.level[-1] - 2)",
               "and (len(node.children) >= node.end_message.task_level.level[-1] - 3)")

@mutant("c09_no_parent_reeval", "eliot/parse.py")
def _(s):
    return rep(s, "        parent = parent._add_child(child)\n        return self._insert_action(parent)",
               "        parent = parent._add_child(child)\n        return self.transform([\"_nodes\", parent.task_level], parent)._ensure_node_parents(parent)")

@mutant("c09_child_complete_skipped", "eliot/parse.py")
def _(s):
    return rep(s, "                    and child.task_level not in self._completed\n",
               "                    and child.task_level not in self._completed\n                    and len(child.task_level.as_list()) < 3\n")

@mutant("c09_parser_keeps_completed", "eliot/parse.py")
def _(s):
    return rep(s, '            parser = self.transform(["_tasks", uuid], discard)\n            return [task], parser',
               '            parser = self.transform(["_tasks", uuid], task)\n            return [task], parser')

@mutant("c13_no_copy_without_serializer", "eliot/_output.py")
def _(s):
    return rep(s, "        dictionary = dictionary.copy()\n        try:\n            if serializer is not None:",
               "        if serializer is not None:\n            dictionary = dictionary.copy()\n        try:\n            if serializer is not None:")

@mutant("c13_serialize_twice", "eliot/_output.py")
def _(s):
    return rep(s, "                serializer.serialize(dictionary)\n        except:",
               "                serializer.serialize(dictionary)\n                serializer.serialize(dictionary)\n        except:")

@mutant("c13_serialize_in_place", "eliot/_output.py")
def _(s):
    return rep(s, "        dictionary = dictionary.copy()\n        try:", "        try:")

@mutant("c13_deliver_despite_failure", "eliot/_output.py")
def _(s):
    return rep(s, """                __eliot_logger__=self,
            )
            return
""", """                __eliot_logger__=self,
            )
""")

@mutant("c13_no_traceback_on_failure", "eliot/_output.py")
def _(s):
    return rep(s, "        except:\n            write_traceback(self)\n", "        except:\n")

@mutant("c15_context_per_resumption", "eliot/_generators.py")
def _(s):
    return rep(s, "                value_out = context.run(go)", "                value_out = copy_context().run(go)")

@mutant("c15_no_context", "eliot/_generators.py")
def _(s):
    return rep(s, "                value_out = context.run(go)", "                value_out = go()")

@mutant("c15_throw_becomes_send", "eliot/_generators.py")
def _(s):
    return rep(s, "                    ok = False\n                    value_in = exc_info()",
               "                    import sys as _s\n                    if _s.exc_info()[0] is GeneratorExit:\n                        ok = False\n                        value_in = exc_info()\n                    else:\n                        ok = True\n                        value_in = None")

@mutant("c15_drop_sent_value", "eliot/_generators.py")
def _(s):
    return rep(s, "                    value_in = yield value_out\n", "                    yield value_out\n                    value_in = None\n")

@mutant("c15_return_dropped", "eliot/_generators.py")
def _(s):
    return rep(s, "                return e.value\n", "                break\n")

@mutant("c17_shallow_of_type", "eliot/testing.py")
def _(s):
    return rep(s, "                and message[ACTION_STATUS_FIELD] == STARTED_STATUS\n            ):",
               "                and message[ACTION_STATUS_FIELD] == STARTED_STATUS\n                and len(message[TASK_LEVEL_FIELD]) <= 2\n            ):")

@mutant("c17_children_by_type", "eliot/testing.py")
def _(s):
    return rep(s, "                and messageLevel[:-2] == levelPrefix\n                and messageLevel[-1] == 1",
               "                and messageLevel[:-3] == levelPrefix[:-1]\n                and messageLevel[-1] == 1")

@mutant("c17_descendants_skip_nested", "eliot/testing.py")
def _(s):
    return rep(s, "            if isinstance(child, LoggedAction):\n                for descendant in child.descendants():\n                    yield descendant",
               "            if isinstance(child, LoggedAction):\n                for descendant in child.children:\n                    yield descendant")

@mutant("c17_superset_ignores_values", "eliot/testing.py")
def _(s):
    return rep(s, "        [(key, value) for key, value in message.items() if key in fields]\n    )\n    test.assertEqual(messageSubset, fields)",
               "        [(key, value) for key, value in message.items() if key in fields]\n    )\n    test.assertEqual(set(messageSubset), set(fields))")

@mutant("c17_has_action_ignores_status", "eliot/testing.py")
def _(s):
    return rep(s, "    testCase.assertEqual(action.succeeded, succeeded)\n", "")

@mutant("c20_compact_drops_field", "eliot/prettyprint.py")
def _(s):
    return rep(s, "    for key, value in sorted(message.items()):\n        if key not in _skip_fields:\n            ordered_message[key] = value",
               "    for key, value in sorted(message.items()):\n        if key not in _skip_fields and key != \"reason\":\n            ordered_message[key] = value")

@mutant("c20_break_after_not_json", "eliot/prettyprint.py")
def _(s):
    return rep(s, '            stdout.write("Not JSON: {}\\n\\n".format(line.rstrip(b"\\n")))\n            continue',
               '            stdout.write("Not JSON: {}\\n\\n".format(line.rstrip(b"\\n")))\n            break')

@mutant("c20_pretty_skips_status", "eliot/prettyprint.py")
def _(s):
    return rep(s, "_first_fields = [ACTION_TYPE_FIELD, MESSAGE_TYPE_FIELD, ACTION_STATUS_FIELD]",
               "_first_fields = [ACTION_TYPE_FIELD, MESSAGE_TYPE_FIELD]")

@mutant("c20_timestamp_seconds", "eliot/prettyprint.py")
def _(s):
    return rep(s, "        dt = datetime.utcfromtimestamp(message[TIMESTAMP_FIELD])",
               "        dt = datetime.utcfromtimestamp(int(message[TIMESTAMP_FIELD]))")

@mutant("c20_filter_skip_falsy", "eliot/filter.py")
def _(s):
    return rep(s, "            if result is self._SKIP:", "            if result is self._SKIP or not result:")

@mutant("c20_non_object_abort", "eliot/prettyprint.py")
def _(s):
    return rep(s, "        if not isinstance(message, dict) or REQUIRED_FIELDS - set(message.keys()):",
               "        if REQUIRED_FIELDS - set(message.keys()):")

@mutant("c19_reader_checks_running", "eliot/logwriter.py")
def _(s):
    return rep(s, "        while True:\n            msg = self._queue.get()\n            if msg is _STOP:\n                return",
               "        while True:\n            msg = self._queue.get()\n            if msg is _STOP or not self.running:\n                return")

@mutant("c19_no_join", "eliot/logwriter.py")
def _(s):
    return rep(s, "            self._mainReactor, self._mainReactor.getThreadPool(), self._thread.join\n",
               "            self._mainReactor, self._mainReactor.getThreadPool(), lambda: None\n")

@mutant("c19_exception_kills_reader", "eliot/logwriter.py")
def _(s):
    return rep(s, "            except Exception:\n                # Lower-level destination blew up, nothing we can do, so\n                # just drop on the floor.\n                pass",
               "            except Exception:\n                return")

@mutant("c19_call_inline", "eliot/logwriter.py")
def _(s):
    return rep(s, "        self._queue.put(data)\n", "        if self._queue.empty():\n            try:\n                self._destination(data)\n            except Exception:\n                pass\n        else:\n            self._queue.put(data)\n")

@mutant("c19_stop_before_unregister", "eliot/logwriter.py")
def _(s):
    return rep(s, "        removeDestination(self)\n        self._queue.put(_STOP)\n",
               "        self._queue.put(_STOP)\n        removeDestination(self)\n")

def main():
    name = sys.argv[1]
    d = sys.argv[2] if len(sys.argv) > 2 else "/tmp/mut"
    src = os.environ.get("MUT_BASE", "/repo")
    if os.path.exists(d):
        shutil.rmtree(d)
    os.makedirs(d)
    shutil.copytree(os.path.join(src, "eliot"), os.path.join(d, "eliot"),
                    ignore=shutil.ignore_patterns("__pycache__"))
    if name == "list":
        print("\n".join(sorted(MUTANTS)))
        return
    path, f = MUTANTS[name]
    p = os.path.join(d, path)
    s = open(p).read()
    s2 = f(s)
    assert s2 != s
    open(p, "w").write(s2)
    print(d)

if __name__ == "__main__":
    main()
