#!/venv/bin/python
"""Apply a named sensitivity mutant to a scratch copy of eliot.

    tools/mutant.py <name> [dir]     -> creates <dir>/eliot (default /tmp/mut), prints the dir
Run a check against it with ELIOT_SRC=<dir>.  Remove the dir afterwards.
"""
import os, shutil, sys

MUTANTS = {}

def mutant(name, path):
    def deco(f):
        MUTANTS[name] = (path, f)
        return f
    return deco

def rep(s, a, b, count=1):
    assert a in s, "pattern not found: %r" % a[:60]
    return s.replace(a, b, count)

@mutant("c01_child_no_increment", "eliot/_action.py")
def _(s):
    return rep(s, "        newLevel = self._nextTaskLevel()\n        return self.__class__(",
               "        newLevel = (self._last_child.next_sibling() if self._last_child else self._task_level.child())\n        return self.__class__(")

@mutant("c05_global_context", "eliot/_action.py")
def _(s):
    return rep(s, '_ACTION_CONTEXT = ContextVar("eliot.action")', '''class _GlobalVar:
    def __init__(self):
        self.v = None
    def get(self, d=None):
        return self.v if self.v is not None else d
    def set(self, v):
        old = self.v
        self.v = v
        return old
    def reset(self, tok):
        self.v = tok
_ACTION_CONTEXT = _GlobalVar()''')

@mutant("c05_thread_local_context", "eliot/_action.py")
def _(s):
    return rep(s, '_ACTION_CONTEXT = ContextVar("eliot.action")', '''import threading as _thr
class _LocalVar:
    def __init__(self):
        self.l = _thr.local()
    def get(self, d=None):
        v = getattr(self.l, "v", None)
        return v if v is not None else d
    def set(self, v):
        old = getattr(self.l, "v", None)
        self.l.v = v
        return old
    def reset(self, tok):
        self.l.v = tok
_ACTION_CONTEXT = _LocalVar()''')

@mutant("c04_context_resets_to_none", "eliot/_action.py")
def _(s):
    return rep(s, '''            yield self
        finally:
            _ACTION_CONTEXT.reset(parent)''', '''            yield self
        finally:
            _ACTION_CONTEXT.set(None)''')

@mutant("c04_run_resets_to_none", "eliot/_action.py")
def _(s):
    return rep(s, '''            return f(*args, **kwargs)
        finally:
            _ACTION_CONTEXT.reset(parent)''', '''            return f(*args, **kwargs)
        finally:
            _ACTION_CONTEXT.set(None)''')

@mutant("c03_baseexception_is_success", "eliot/_action.py")
def _(s):
    return rep(s, "        self.finish(exception)\n", "        self.finish(exception if isinstance(exception, Exception) else None)\n")

@mutant("c03_skip_finish_for_baseexception", "eliot/_action.py")
def _(s):
    return rep(s, "        self.finish(exception)\n",
               "        if exception is None or isinstance(exception, Exception):\n            self.finish(exception)\n")

@mutant("c03_second_finish_logs", "eliot/_action.py")
def _(s):
    return rep(s, "        if self._finished:\n            return\n", "")

@mutant("c03_mro_farthest", "eliot/_errors.py")
def _(s):
    return rep(s, "for klass in getmro(exception.__class__):", "for klass in reversed(getmro(exception.__class__)):")

@mutant("c02_finish_before_reset", "eliot/_action.py")
def _(s):
    return rep(s, '''        _ACTION_CONTEXT.reset(self._parent_token)
        self._parent_token = None
        self.finish(exception)''', '''        self.finish(exception)
        _ACTION_CONTEXT.reset(self._parent_token)
        self._parent_token = None''')

@mutant("c07_safeunicode_no_except", "eliot/_util.py")
def _(s):
    return rep(s, "    try:\n        return str(o)\n    except:", "    try:\n        return str(o)\n    except ZeroDivisionError:")

@mutant("c07_report_try_removed", "eliot/_output.py")
def _(s):
    return rep(s, """            except:
                # Nothing we can do here, raising exception to caller will""", """            except ZeroDivisionError:
                # Nothing we can do here, raising exception to caller will""")

@mutant("c07_dest_except_narrow", "eliot/_output.py")
def _(s):
    return rep(s, """                dest(message)
            except Exception as e:""", """                dest(message)
            except (ValueError, TypeError, KeyError) as e:""")

@mutant("c07_serializer_except_narrow", "eliot/_output.py")
def _(s):
    return rep(s, """                serializer.serialize(dictionary)
        except:
            write_traceback(self)""", """                serializer.serialize(dictionary)
        except KeyError:
            write_traceback(self)""")

@mutant("c07_extractor_except_removed", "eliot/_errors.py")
def _(s):
    return rep(s, """                try:
                    return extractor(exception)
                except:""", """                try:
                    return extractor(exception)
                except ZeroDivisionError:""")

@mutant("c08_report_reports", "eliot/_output.py")
def _(s):
    return rep(s, "                if not is_destination_error_message:\n                    errors.append(e)",
               "                errors.append(e)")

@mutant("c08_stop_after_first_failure", "eliot/_output.py")
def _(s):
    return rep(s, "                if not is_destination_error_message:\n                    errors.append(e)",
               "                if not is_destination_error_message:\n                    errors.append(e)\n                break")

@mutant("c08_report_once_per_message", "eliot/_output.py")
def _(s):
    return rep(s, "        for exception in errors:\n", "        for exception in errors[:1]:\n")

@mutant("c08_reverse_order", "eliot/_output.py")
def _(s):
    return rep(s, "        for dest in self._destinations:\n            try:", "        for dest in reversed(self._destinations):\n            try:")

@mutant("c16_no_lock_write", "eliot/_output.py")
def _(s):
    return rep(s, "    @exclusively\n    def write(self, dictionary, serializer=None):", "    def write(self, dictionary, serializer=None):")

@mutant("c16_no_lock_reset", "eliot/_output.py")
def _(s):
    return rep(s, "    @exclusively\n    def reset(self):", "    def reset(self):")

@mutant("c16_no_lock_flush", "eliot/_output.py")
def _(s):
    return rep(s, "    @exclusively\n    def flushTracebacks(self, exceptionType):", "    def flushTracebacks(self, exceptionType):")

@mutant("c16_two_writes_per_line", "eliot/_output.py")
def _(s):
    return rep(s, """        self.file.write(
            self._dumps(message, default=self._json_default) + self._linebreak
        )""", """        self.file.write(self._dumps(message, default=self._json_default))
        self.file.write(self._linebreak)""")

@mutant("c10_no_flush", "eliot/_output.py")
def _(s):
    return rep(s, "        self.file.flush()\n", "        pass\n")

@mutant("c12_buffer_999", "eliot/_output.py")
def _(s):
    return rep(s, "while len(self.messages) > 1000:", "while len(self.messages) > 999:")

@mutant("c12_any_added_never_set", "eliot/_output.py")
def _(s):
    return rep(s, "            self._any_added = True\n", "            pass\n")

@mutant("c12_globals_once", "eliot/_output.py")
def _(s):
    return rep(s, "        message.update(self._globalFields)\n", "        for _k, _v in self._globalFields.items():\n            message.setdefault(_k, _v)\n")

@mutant("c12_original_handover", "eliot/_output.py")
def _(s):
    s = rep(s, """            with buffer._lock:
                # Re-deliver buffered messages (and whatever gets logged
                # while doing so), then switch over in a single step:
                while buffer.messages:
                    buffered_messages, buffer.messages = buffer.messages, []
                    for message in buffered_messages:
                        self._deliver(destinations, message)
                buffer._forward = self.send
                self._destinations = destinations""", """            buffered_messages = buffer.messages
            self._destinations = []
            self._destinations.extend(destinations)
            for message in buffered_messages:
                self.send(message)""")
    return s

@mutant("c11_flush_before_write", "eliot/_output.py")
def _(s):
    return rep(s, """        self.file.write(
            self._dumps(message, default=self._json_default) + self._linebreak
        )
        self.file.flush()""", """        self.file.flush()
        self.file.write(
            self._dumps(message, default=self._json_default) + self._linebreak
        )""")

@mutant("c11_flush_every_other", "eliot/_output.py")
def _(s):
    return rep(s, "        self.file.flush()\n", "        if len(message) % 2:\n            self.file.flush()\n")

@mutant("c10_text_ensure_ascii", "eliot/json.py")
def _(s):
    return rep(s, '        return _dumps_bytes(o, default=default).decode("utf-8")',
               '        import json as _j\n        return _j.dumps(_j.loads(_dumps_bytes(o, default=default)))')

@mutant("c10_float_repr", "eliot/json.py")
def _(s):
    return rep(s, '    from orjson import dumps as _dumps_bytes\n',
               '    from orjson import dumps as _orjson_dumps\n\n    def _dumps_bytes(o, default=None):\n'
               '        import json as _j\n        return _j.dumps(_j.loads(_orjson_dumps(o, default=default)), ensure_ascii=False).encode("utf-8")\n')

def main():
    name = sys.argv[1]
    d = sys.argv[2] if len(sys.argv) > 2 else "/tmp/mut"
    src = os.environ.get("MUT_BASE", "/repo")
    if os.path.exists(d):
        shutil.rmtree(d)
    os.makedirs(d)
    shutil.copytree(os.path.join(src, "eliot"), os.path.join(d, "eliot"),
                    ignore=shutil.ignore_patterns("__pycache__"))
    if name == "list":
        print("\n".join(sorted(MUTANTS)))
        return
    path, f = MUTANTS[name]
    p = os.path.join(d, path)
    s = open(p).read()
    s2 = f(s)
    assert s2 != s
    open(p, "w").write(s2)
    print(d)

if __name__ == "__main__":
    main()
