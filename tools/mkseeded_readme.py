#!/usr/bin/env python3
"""Regenerate seeded/README.md from seeded/<id>/meta.json (summary, needs, checks, note)."""
import json
import os
import re

VERIF = os.path.dirname(os.path.dirname(os.path.abspath(__file__)))
SD = os.path.join(VERIF, "seeded")

HEAD = """# Independently seeded changes

Each directory holds `patch.diff`, `demo.py` (exit 0 + `PROPERTY HOLDS` on the unchanged tree, exit 1 + `PROPERTY VIOLATED` with the patch) and `meta.json` (what it breaks, what it needs to manifest, what was run, which checks catch it).
Round 1 (`Cnn`): one change per claimed property. Round 2 (`Cnnx`, `Cnny`): two more per property, different mechanisms, not the obvious one. Round 3 (`Cnnp`, `Cnnq`): two more, required to need a specific interleaving, a crash or fault at a particular point, or a multi-step sequence. Round 4 (`Cnnr`, `Cnns`): two more under the same requirement, written after being told which mechanisms rounds 1-3 had already used. Round 5 (`Cnnu`): one more per property (its sibling `Cnnt`, a behaviour-preserving rewrite, is in `/verif/seeded_preserving/`). Round 6 (`Cnnw`): one more (sibling `Cnnv`, a permitted change of observable behaviour, in `/verif/seeded_permitted/`). Round 7 (`Cnnn`): one more (sibling `Cnnm`, a second permitted change). Round 8 (`Cnnk`): one more (sibling `Cnnj`, a third permitted change). All %(n)d were written by sub-agents that were given only the text of one property and scratch git worktrees (nothing from /verif), confirmed by hand with `tools/confirm_seeded.sh` (demo on both trees; the whole suite on the changed tree: 404 passed, the same 19 pre-existing failures) and then run against the checks with `tools/run_seeded.py` (patch applied to /repo and undone straight afterwards, or -- while a background thorough run was using /repo -- to a scratch copy selected with ELIOT_SRC). None of them is committed to /repo. Rounds 1/2 were written against /repo 9168f63, round 3 against 7e5edd0, rounds 4 to 8 against 066252b; patches that overlap a later fix are evaluated on the tree of the commit they were written against (`base_commit` in meta.json).

%(caught)d of the %(n)d are caught by the quick tier (C03p is not, on purpose: see its row).

| id | change | caught by (quick tier, VERIF_SEED=0) | missed at first because -> what was added |
|---|---|---|---|
"""


def main():
    ids = sorted(d for d in os.listdir(SD) if os.path.isdir(os.path.join(SD, d)))
    rows = []
    caught = 0
    for i in ids:
        m = json.load(open(os.path.join(SD, i, "meta.json")))
        checks = m.get("checks", {})
        by = ["%s: %s" % (c, v.get("signatures", "")[:110]) for c, v in checks.items() if v.get("caught")]
        notby = [c for c, v in checks.items() if not v.get("caught")]
        if by:
            caught += 1
            col = "; ".join(by) + ((" (not by: %s)" % ", ".join(notby)) if notby else "")
        else:
            col = "**not caught** (ran: %s)" % ", ".join(checks)
        text = (m.get("summary", "")[:420] + " **Needs:** " + m.get("needs", "")[:330]).replace("|", "\\|").replace("\n", " ")
        rows.append("| %s | %s | %s | %s |" % (i, text, col.replace("|", "\\|"), m.get("note", "").replace("|", "\\|")))
    with open(os.path.join(SD, "README.md"), "w") as f:
        f.write(HEAD % {"n": len(ids), "caught": caught})
        f.write("\n".join(rows) + "\n")
    print("README: %d changes, %d caught" % (len(ids), caught))


if __name__ == "__main__":
    main()
