"""Stand-in for the two Twisted names eliot/logwriter.py imports.

Twisted is not installed in this sandbox.  This package is put on sys.path by
/verif/props/c19.py only (never on the path of the repository's own tests).
"""
