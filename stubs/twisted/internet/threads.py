"""Minimal twisted.internet.threads.deferToThreadPool: runs the callable on a
simulated pool thread (a sim actor) and returns a minimal deferred whose
completion the driver can observe."""

from esim import sched as _sched


class Deferred(object):
    def __init__(self):
        self.called = False
        self.result = None
        self.failure = None
        self.actor = None
        self._callbacks = []

    def addCallback(self, f, *a, **kw):
        if self.called and self.failure is None:
            self.result = f(self.result, *a, **kw)
        else:
            self._callbacks.append((f, a, kw))
        return self

    def _fire(self, result=None, failure=None):
        self.called = True
        self.result = result
        self.failure = failure
        if failure is None:
            for f, a, kw in self._callbacks:
                self.result = f(self.result, *a, **kw)


def deferToThreadPool(reactor, threadpool, f, *args, **kwargs):
    d = Deferred()
    s = _sched.current_sched()
    if s is None or _sched.current_actor() is None:
        raise RuntimeError("deferToThreadPool stand-in used outside a simulated run")

    def run():
        try:
            r = f(*args, **kwargs)
        except _sched.SimAbort:
            raise
        except BaseException as e:  # noqa
            d._fire(failure=e)
        else:
            d._fire(result=r)

    n = sum(1 for a in s.actors if a.name.startswith("pool"))
    d.actor = s.spawn("pool#%d" % n, run)
    s.yield_point("deferToThreadPool")
    return d
