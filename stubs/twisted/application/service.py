"""Minimal twisted.application.service.Service."""


class Service(object):
    name = None
    running = 0
    parent = None

    def startService(self):
        self.running = 1

    def stopService(self):
        self.running = 0
