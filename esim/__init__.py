"""esim: a small deterministic simulator for the eliot logging library.

One integer (the run seed) decides everything: the generated program, every
scheduling decision, every injected fault.  See /verif/DESIGN.md.
"""
