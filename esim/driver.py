"""Program interpreter + reference model.

A *program* is a JSON tree of operations (see ``prog.py``).  The interpreter
executes it against the real eliot API and, while doing so, builds the
**reference model**: a forest of ``MAction``/``MMsg`` nodes that records what
the program actually did, using only what the interpreter itself observes
(its own call order and the exceptions passing through its own frames).
eliot's bookkeeping (``task_uuid``, ``task_level``, ``current_action()``) is
output under test, never input of the model.

The interpreter is written as a generator so that the same code runs under
the thread scheduler (requests are served synchronously) and under the
virtual-time asyncio loop (requests are awaited).
"""

import asyncio
import contextvars

from . import sched as _sched
from . import values as _values
from .sched import SimAbort


# --------------------------------------------------------------- violations
class Violation(Exception):
    """The oracle says the property does not hold.  ``sig`` is the structured
    signature (used for shrinking equivalence and known findings)."""

    def __init__(self, sig, detail=""):
        Exception.__init__(self, sig, detail)
        self.sig = sig
        self.detail = detail


class Unwind(BaseException):
    """Raised in an actor after a violation was recorded, to end the run."""


# ------------------------------------------------------- exception classes
class AppError(Exception):
    pass


class AppSubError(AppError):
    pass


class AppBase(BaseException):
    pass


class ExtractMe(Exception):
    """An extractor is registered for this class (fields: code)."""

    def __init__(self, text, code=7):
        Exception.__init__(self, text)
        self.code = code


class ExtractSub(ExtractMe):
    pass


class MixedErr(AppError, KeyError):
    """Two unrelated bases: MRO is MixedErr, AppError, KeyError, LookupError, Exception -- the nearest
    registered class is decided by the MRO, not by the order in which extractors were registered."""


class MixedErr2(ValueError, ExtractMe):
    def __init__(self, text):
        ExtractMe.__init__(self, text)


class CollideErr(Exception):
    """Raised by `raise` ops only; its extractor returns keys that collide with the fields eliot
    itself puts on a failed end message (exception, reason, action_status)."""


class StrRaises(Exception):
    def __str__(self):
        raise RuntimeError("str() raises")


class SerBoom(Exception):
    """What a failing field serializer raises."""


class ExtractorBoom(Exception):
    """What a failing exception extractor raises."""


EXC_CLASSES = {
    "Exception": Exception,
    "ValueError": ValueError,
    "KeyError": KeyError,
    "OSError": OSError,
    "AppError": AppError,
    "AppSubError": AppSubError,
    "AppBase": AppBase,
    "KeyboardInterrupt": KeyboardInterrupt,
    "SystemExit": SystemExit,
    "GeneratorExit": GeneratorExit,
    "CancelledError": asyncio.CancelledError,
    "ExtractMe": ExtractMe,
    "ExtractSub": ExtractSub,
    "StrRaises": StrRaises,
    "ZeroDivisionError": ZeroDivisionError,
    "CollideErr": CollideErr,
    "MixedErr": MixedErr,
    "MixedErr2": MixedErr2,
}


def make_exc(cls_name, text):
    cls = EXC_CLASSES[cls_name]
    if cls is OSError:
        return OSError(5, text)
    return cls(text)


def class_path(cls):
    return "%s.%s" % (cls.__module__, cls.__name__)


STR_PLACEHOLDER = "eliot: unknown, str() raised exception"


def exc_text(e):
    try:
        return str(e)
    except BaseException:  # noqa
        return STR_PLACEHOLDER


# -------------------------------------------------------------------- model
class MAction(object):
    kind = "action"

    def __init__(self, nid, atype, start, actor, remote=False):
        self.nid = nid
        self.atype = atype
        self.start = start          # expected start fields (after serializers), incl. nid if any
        self.succ = {}              # success fields accumulated so far
        self.children = []          # MAction / MMsg / MReserved, in position order
        self.outcome = None         # None (open) | "succeeded" | "failed"
        self.exc = None             # exception object that failed it
        self.exc_fields = {}        # expected extractor fields
        self.actor = actor
        self.remote = remote
        self.obj = None             # the real Action
        self.parent = None
        self.started = True
        self.ser_succ = None
        self.finished_inside = False
        self.late_gates = []
        self.reason = None

    def __repr__(self):
        return "<MAction nid=%s %s %s n=%d>" % (self.nid, self.atype, self.outcome, len(self.children))


class MMsg(object):
    kind = "msg"

    def __init__(self, nid, mtype, fields, actor, tb=None, loose=False):
        self.nid = nid
        self.mtype = mtype
        self.fields = fields        # for tracebacks: expected extractor fields (or None)
        self.actor = actor
        self.tb = tb                # for tracebacks: the exception object
        self.loose = loose          # extractor fields on this traceback are not checked
        self.parent = None

    def __repr__(self):
        return "<MMsg nid=%s %s>" % (self.nid, self.mtype)


class Model(object):
    def __init__(self):
        self.roots = []             # MAction (tasks) / MMsg (context-less messages), in creation order
        self.by_nid = {}
        self.reserved = []          # serialized ids: (id, parent MAction, child MAction)

    def attach(self, node, parent):
        node.parent = parent
        if parent is None:
            self.roots.append(node)
        else:
            parent.children.append(node)
        if node.nid is not None:
            self.by_nid[node.nid] = node

    def all_actions(self):
        out = []

        def walk(n):
            if n.kind == "action":
                out.append(n)
                for c in n.children:
                    walk(c)
        for r in self.roots:
            walk(r)
        return out

    def all_nodes(self):
        out = []

        def walk(n):
            out.append(n)
            if n.kind == "action":
                for c in n.children:
                    walk(c)
        for r in self.roots:
            walk(r)
        return out


# ---------------------------------------------------------------- serializers
SERIALIZERS = {
    "id": lambda v: v,
    "wrap": lambda v: [v],
    "tag": lambda v: {"v": v},
}


class Env(object):
    """Per-actor (per-task) model context stack."""

    def __init__(self, stack=()):
        self.stack = list(stack)   # [(MAction, real Action)]

    def top(self):
        return self.stack[-1][0] if self.stack else None

    def top_obj(self):
        return self.stack[-1][1] if self.stack else None

    def copy(self):
        return Env(self.stack)


class Holder(object):
    __slots__ = ("inner",)

    def __init__(self):
        self.inner = None


# --------------------------------------------------------------- interpreter
class Interp(object):
    """Executes programs; one instance per run."""

    def __init__(self, rc):
        self.rc = rc
        self.model = rc.model
        self.eliot = rc.eliot
        self.types = {}
        self.call_id = 0
        self.async_mode = False
        self.loop = None
        self._log_call_fns = {}

    # ----------------------------------------------------------- typed defs
    def define_types(self, types):
        e = self.eliot
        rc = self.rc
        S = dict(SERIALIZERS)
        p_ser = rc.cfg.get("p_ser_raise", 0)
        if p_ser:
            fault = rc.dec.stream("fault")

            def flaky(fn):
                def ser(v):
                    if fault.chance(p_ser, "ser_raise"):
                        rc.count_fault("ser_raise")
                        raise SerBoom("serializer failed")
                    return fn(v)
                return ser
            S = {k: flaky(fn) for k, fn in S.items()}
        # what the model expects is computed from the declarations, with the plain serializer
        # functions -- never read back from eliot's own (private) objects
        class _Ser(object):
            def __init__(self, fn):
                self.serialize = fn
        self.type_specs = {}
        for name, t in sorted(types.items()):
            if t["kind"] == "action":
                self.type_specs[name] = {"start": {k: _Ser(SERIALIZERS[x]) for k, x in t["start"]},
                                         "succ": {k: _Ser(SERIALIZERS[x]) for k, x in t["succ"]}}
            else:
                self.type_specs[name] = {"fields": {k: _Ser(SERIALIZERS[x]) for k, x in t["fields"]}}
        for name, t in sorted(types.items()):
            if t["kind"] == "action":
                sf = [e.Field(k, S[s], "") for k, s in t["start"]]
                uf = [e.Field(k, S[s], "") for k, s in t["succ"]]
                self.types[name] = e.ActionType(name, sf, uf, "")
            else:
                mf = [e.Field(k, S[s], "") for k, s in t["fields"]]
                self.types[name] = e.MessageType(name, mf, "")

    # ------------------------------------------------------------ API calls
    def api(self, label, fn, *a, **kw):
        """Call into eliot.  Whatever it raises is eliot's doing (C07)."""
        return self._api(label, None, fn, a, kw)

    def api_thru(self, label, holder, fn, *a, **kw):
        """Call into eliot with application code inside (run/log_call):
        the application's own exception object may pass through."""
        return self._api(label, holder, fn, a, kw)

    def _api(self, label, holder, fn, a, kw):
        rc = self.rc
        actor = _sched.current_actor()
        self.call_id += 1
        cid = self.call_id
        slot = actor.data if actor is not None else rc.noactor
        prev = slot.get("call")
        slot["call"] = (cid, label)
        if actor is not None:
            actor.call_lines = 0
        rc.api_calls += 1
        try:
            res = fn(*a, **kw)
        except (SimAbort, Unwind):
            raise
        except BaseException as e:  # noqa
            if holder is not None and holder.inner is e:
                raise
            if isinstance(e, Violation):
                raise
            rc.fail("api_raised", "%s raised %s: %s" % (label, type(e).__name__, exc_text(e)[:200]),
                    api=label[0] if isinstance(label, tuple) else label, exc=type(e).__name__)
            raise Unwind()
        finally:
            slot["call"] = prev
            if actor is not None and rc.sched is not None and rc.sched.abort == "call budget":
                pass
        rc.on_return(cid, label)
        return res

    # ------------------------------------------------------------- contexts
    def check_current(self, env, where):
        rc = self.rc
        if not rc.check_context:
            return
        got = self.eliot.current_action()
        want = env.top_obj()
        rc.ctx_checks += 1
        if got is not want:
            wn = env.top()
            rc.fail("context_wrong",
                    "%s: current_action() is %r, expected the action of nid %s" % (
                        where, got, wn.nid if wn is not None else None),
                    where=where.split(":")[0])
            raise Unwind()

    # ----------------------------------------------------------------- body
    def x_body(self, ops, env, later=None):
        """Run ops.  What this body spawns is joined at its end -- or, when the caller passes a list as
        ``later``, handed to the caller to join (scope left first, action finished after the join)."""
        pending = [] if later is None else later
        orphans = []
        try:
            for op in ops:
                if op["op"] == "orphan_create":
                    self.x_orphan_create(op, env, orphans)
                    continue
                yield from self.x_op(op, env, pending)
        finally:
            if pending and later is None:
                # structured concurrency: join what this body spawned
                yield ("join", pending)
            for nid in orphans:
                self.x_orphan_abandon(nid)

    def x_op(self, op, env, pending):
        k = op["op"]
        if k == "msg":
            self.x_msg(op, env)
        elif k == "act":
            yield from self.x_act(op, env)
        elif k == "raise":
            raise make_exc(op["cls"], op.get("text", "boom"))
        elif k == "handler":
            self.rc.probe("ops_inside_an_exception_handler")
            try:
                raise make_exc(op["cls"], "being handled while the body runs")
            except BaseException:  # noqa
                yield from self.x_body(op["body"], env)
        elif k == "tb":
            self.x_tb(op, env)
        elif k == "succ":
            self.x_succ(op, env)
        elif k == "pause":
            yield ("pause", op.get("d", 0))
        elif k == "spawn":
            yield from self.x_spawn(op, env, pending)
        elif k == "_continue":
            yield from self.x_continue(op, env)
        elif k == "reenter":
            yield from self.x_reenter(op, env)
        elif k == "plain_gen":
            self.x_plain_gen(op, env)
        elif k == "orphan_enter":
            yield from self.x_orphan_enter(op, env)
        elif k == "xreg":
            # an exception extractor registered in the middle of the run
            self.rc.setup_extractors([[op["cls"], op["mode"]]])
            self.rc.probe("extractor_registered_midrun")
        else:
            h = self.rc.custom_ops.get(k)
            if h is None:
                raise _sched.HarnessError("unknown op %r" % (k,))
            r = h(self, op, env)
            if r is not None:
                yield from r
        self.check_current(env, "after %s" % k)

    # ------------------------------------------------------------- messages
    def x_msg(self, op, env):
        e = self.eliot
        api = op["api"]
        faulty = self.rc.faulty_values
        fields = _values.materialize(op["fields"]) if faulty else dict(op["fields"])
        nid = op["nid"]
        fields["nid"] = nid
        mtype = op["mtype"]
        parent = env.top()
        expected = dict(fields)
        actor = self.rc.actor_name()
        if api == "typed" and not faulty:
            for key, f in self.type_specs[mtype]["fields"].items():
                if key in expected and key != "message_type":
                    expected[key] = f.serialize(expected[key])
        node = MMsg(nid, mtype, expected, actor)
        self.model.attach(node, parent)
        label = ("msg", nid)
        if api == "log_message":
            self.api(label, e.log_message, message_type=mtype, **fields)
        elif api == "action_log" and env.top_obj() is not None:
            self.api(label, env.top_obj().log, message_type=mtype, **fields)
        elif api == "typed":
            self.api(label, self.types[mtype].log, **fields)
        elif api == "Message_log":
            self.api(label, e.Message.log, message_type=mtype, **fields)
        elif api == "Message_new":
            m = self.api(label, e.Message.new, message_type=mtype, **fields)
            self.api(label, m.write)
        else:
            self.api(label, e.log_message, message_type=mtype, **fields)

    def x_tb(self, op, env):
        e = self.eliot
        nid = op["nid"]
        exc = make_exc(op["cls"], "tb nid=%d" % nid)
        self._extractor_failure(exc, env)
        # an exception whose str() raises cannot carry the nid in its text
        node = MMsg(None if exc_text(exc) == STR_PLACEHOLDER else nid, "eliot:traceback",
                    self.rc.expected_extractor_fields(exc), self.rc.actor_name(), tb=exc)
        self.model.attach(node, env.top())
        try:
            raise exc
        except BaseException:  # noqa
            self.api(("tb", nid), e.write_traceback)

    def x_succ(self, op, env):
        if not env.stack:
            return
        node, obj = env.stack[-1]
        if node.remote and node.nid is None:
            return
        ser = node.ser_succ
        opf = _values.materialize(op["fields"]) if self.rc.faulty_values else op["fields"]
        for k2, v in opf.items():
            if ser is not None and k2 in ser:
                continue
            node.succ[k2] = v
        flt = {k2: v for k2, v in opf.items() if not (ser is not None and k2 in ser)}
        self.api(("succ", node.nid), obj.add_success_fields, **flt)

    # ------------------------------------------------- re-entry, plain generators
    def x_reenter(self, op, env):
        """Enter context()/run() of the action that is already current."""
        rc = self.rc
        if not env.stack:
            return
        # the action entered again: the current one (up=0) or an enclosing one that is still open
        # (in the ASYNC world sibling tasks share their inherited ancestors, so several tasks can be
        # inside the same Action's context()/run() at once and leave it in any order)
        up = op.get("up", 0)
        idx = 0 if up == 9 else len(env.stack) - 1 - (up % len(env.stack))
        node, a = env.stack[idx]
        rc.probe("reenter" if idx == len(env.stack) - 1 else "reenter_ancestor")
        inside = rc.info.setdefault("inside_ctx", {})
        who = rc.actor_name()
        others = [w for w in inside.get(id(node), ()) if w != who]
        if others:
            rc.probe("same_action_context_entered_by_two_tasks")
        inside.setdefault(id(node), []).append(who)
        holder = Holder()
        try:
            yield from self._reenter_body(op, env, node, a, holder)
        finally:
            inside[id(node)].remove(who)

    def _reenter_body(self, op, env, node, a, holder):
        rc = self.rc
        if op["how"] == "context":
            cm = self.api(("ctx", node.nid), a.context)
            self.api(("enter", node.nid), cm.__enter__)
            env.stack.append((node, a))
            try:
                self.check_current(env, "enter:recontext")
                yield from self.x_body(op["body"], env)
            except (SimAbort, Unwind, Violation):
                raise
            except BaseException as ex:  # noqa
                holder.inner = ex
                env.stack.pop()
                try:
                    r = self.api_thru(("exit", node.nid), holder, cm.__exit__, type(ex), ex, ex.__traceback__)
                except BaseException as ex2:  # noqa
                    if ex2 is not ex:
                        raise
                    r = False
                if r:
                    rc.fail("swallowed", "context().__exit__ swallowed the exception")
                    raise Unwind()
                self.check_current(env, "exit:recontext")
                raise
            else:
                env.stack.pop()
                self.api(("exit", node.nid), cm.__exit__, None, None, None)
        else:
            def f():
                env.stack.append((node, a))
                try:
                    self.check_current(env, "enter:rerun")
                    drive_sync(self, self.x_body(op["body"], env))
                except (SimAbort, Unwind, Violation):
                    raise
                except BaseException as ex:  # noqa
                    holder.inner = ex
                    raise
                finally:
                    env.stack.pop()
                return holder
            try:
                r = self.api_thru(("run", node.nid), holder, a.run, f)
            finally:
                self.check_current(env, "exit:rerun")
            if r is not holder:
                rc.fail("run_result", "run() returned %r" % (r,))
                raise Unwind()

    def x_plain_gen(self, op, env):
        """A plain (undecorated) generator that enters an action and yields
        inside it; the driver does no scoping of its own while it is
        suspended, then closes / exhausts / throws into it."""
        e = self.eliot
        rc = self.rc
        nid = op["nid"]
        node = MAction(nid, op["atype"], {"nid": nid}, rc.actor_name())
        self.model.attach(node, env.top())
        interp = self
        rc.probe("plain_gen_" + op["how"])

        def g():
            a = interp.api(("start", nid), e.start_action, action_type=op["atype"], nid=nid)
            node.obj = a
            interp.api(("enter", nid), a.__enter__)
            env.stack.append((node, a))
            try:
                for m in op["inside"]:
                    interp.x_msg(m, env)
                yield 1
                for m in op["after"]:
                    interp.x_msg(m, env)
            except (SimAbort, Unwind, Violation):
                raise
            except BaseException as ex:  # noqa
                env.stack.pop()
                interp._model_fail(node, ex, env)
                r = interp.api(("end", nid), a.__exit__, type(ex), ex, ex.__traceback__)
                if r:
                    rc.fail("swallowed", "__exit__ swallowed")
                    raise Unwind()
                raise
            else:
                env.stack.pop()
                node.outcome = "succeeded"
                interp.api(("end", nid), a.__exit__, None, None, None)

        gen = g()
        rc.live_gens.append(gen)
        if next(gen) != 1:
            raise _sched.HarnessError("generator protocol")
        self.check_current(env, "gen-suspended")
        for m in op["suspended"]:
            self.x_msg(m, env)
        how = op["how"]
        if how == "close":
            gen.close()
        elif how == "exhaust":
            try:
                next(gen)
            except StopIteration:
                pass
        else:
            thrown = AppError("thrown nid=%d" % nid)
            try:
                gen.throw(thrown)
            except AppError as got:
                if got is not thrown:
                    rc.fail("exception_replaced", "generator throw: %r came back instead" % (got,))
                    raise Unwind()

    # -------------------------- actions created in one place and entered in another
    def x_orphan_create(self, op, env, orphans):
        """start_action() here; some other task (or a later op) will enter it with `with action:`."""
        rc = self.rc
        nid = op["nid"]
        node = MAction(nid, op["atype"], {"nid": nid}, rc.actor_name())
        self.model.attach(node, env.top())
        a = self.api(("start", nid), self.eliot.start_action, action_type=op["atype"], nid=nid)
        node.obj = a
        rc.orphans[nid] = [node, a, False]
        orphans.append(nid)
        rc.probe("action_created_for_another_task")

    def x_orphan_abandon(self, nid):
        ent = self.rc.orphans.get(nid)
        if ent is not None and not ent[2]:
            ent[2] = True
            ent[0].outcome = "succeeded"
            self.api(("end", nid), ent[1].finish)

    def x_orphan_enter(self, op, env):
        rc = self.rc
        ent = rc.orphans.get(op["nid"])
        if ent is None or ent[2]:
            return
        ent[2] = True
        node, a = ent[0], ent[1]
        nid = op["nid"]
        rc.probe("action_entered_in_another_task")
        self.api(("enter", nid), a.__enter__)
        env.stack.append((node, a))
        try:
            self.check_current(env, "enter:foreign")
            yield from self.x_body(op["body"], env)
        except (SimAbort, Unwind, Violation):
            raise
        except BaseException as ex:  # noqa
            env.stack.pop()
            self._model_fail(node, ex, env)
            r = self.api(("end", nid), a.__exit__, type(ex), ex, ex.__traceback__)
            if r:
                rc.fail("swallowed", "__exit__ swallowed")
                raise Unwind()
            self.check_current(env, "exit:foreign")
        else:
            env.stack.pop()
            node.outcome = "succeeded"
            self.api(("end", nid), a.__exit__, None, None, None)
            self.check_current(env, "exit:foreign")

    # -------------------------------------------------------------- actions
    def x_act(self, op, env):
        e = self.eliot
        rc = self.rc
        api = op["api"]
        nid = op["nid"]
        atype = op["atype"]
        faulty = rc.faulty_values
        start = _values.materialize(op["start"]) if faulty else dict(op["start"])
        start["nid"] = nid
        parent = env.top()
        is_task = api in ("task", "typed_task")
        expected_start = dict(start)
        ser_succ = None
        if api in ("typed", "typed_task"):
            for key, f in self.type_specs[atype]["start"].items():
                if faulty:
                    break
                if key in expected_start and key not in ("action_type", "action_status"):
                    expected_start[key] = f.serialize(expected_start[key])
            ser_succ = {key: f for key, f in self.type_specs[atype]["succ"].items()
                        if key not in ("action_type", "action_status")}
        node = MAction(nid, atype, expected_start, rc.actor_name())
        node.ser_succ = ser_succ
        self.model.attach(node, None if is_task else parent)
        label = ("start", nid)
        holder = Holder()
        if api == "log_call":
            yield from self._act_log_call(op, env, node, holder)
            return
        if api == "task":
            a = self.api(label, e.start_task, action_type=atype, **start)
        elif api == "typed":
            a = self.api(label, self.types[atype], **start)
        elif api == "typed_task":
            a = self.api(label, self.types[atype].as_task, **start)
        else:
            a = self.api(label, e.start_action, action_type=atype, **start)
        node.obj = a
        # typed success fields declared by the type must be supplied on success
        typed_succ = op.get("tsucc") or {}
        if faulty:
            typed_succ = _values.materialize(typed_succ)
        style = op.get("style", "with")
        catch = op.get("catch", False)
        extra_finish = op.get("fin", 0)
        escaped = None
        if style == "with":
            self.api(("enter", nid), a.__enter__)
            env.stack.append((node, a))
            try:
                self.check_current(env, "enter:with")
                yield from self.x_body(op["body"], env)
                if typed_succ:
                    self._typed_succ(node, a, typed_succ)
            except (SimAbort, Unwind, Violation):
                raise
            except BaseException as ex:  # noqa
                holder.inner = ex
                env.stack.pop()
                self._model_fail(node, ex, env)
                r = self.api(("end", nid), a.__exit__, type(ex), ex, ex.__traceback__)
                if r:
                    rc.fail("swallowed", "__exit__ returned %r: exception swallowed" % (r,))
                    raise Unwind()
                escaped = ex
            else:
                ff = op.get("foreign_finish")
                if ff:
                    node.outcome = "succeeded"
                    self._foreign_finish(a, nid, ff)
                    self.check_current(env, "foreign_finish")
                    env.stack.pop()
                    self.api(("exit", nid), a.__exit__, None, None, None)
                else:
                    env.stack.pop()
                    node.outcome = "succeeded"
                    self.api(("end", nid), a.__exit__, None, None, None)
        elif style in ("context", "run"):
            # a.context() / a.run(f): scope only; finish explicitly afterwards
            later = [] if (op.get("join_after_scope") and style == "context") else None
            try:
                if style == "context":
                    cm = self.api(("ctx", nid), a.context)
                    got = self.api(("enter", nid), cm.__enter__)
                    if got is not a:
                        rc.fail("context_yield", "context() yielded %r" % (got,))
                        raise Unwind()
                    env.stack.append((node, a))
                    try:
                        self.check_current(env, "enter:context")
                        yield from self.x_body(op["body"], env, later)
                        if typed_succ:
                            self._typed_succ(node, a, typed_succ)
                    except (SimAbort, Unwind, Violation):
                        raise
                    except BaseException as ex:  # noqa
                        holder.inner = ex
                        if op.get("finish_inside") and not later:
                            # the handler finishes the action while still inside its context()
                            self._model_fail(node, ex, env)
                            node.finished_inside = True
                            self.api(("end", nid), a.finish, ex)
                        env.stack.pop()
                        try:
                            r = self.api_thru(("exit", nid), holder, cm.__exit__, type(ex), ex, ex.__traceback__)
                        except BaseException as ex2:  # noqa
                            if ex2 is not ex:
                                raise
                            r = False
                        if r:
                            rc.fail("swallowed", "context().__exit__ swallowed the exception")
                            raise Unwind()
                        raise
                    else:
                        if op.get("finish_inside"):
                            # documented idiom: finish while still inside context()
                            node.outcome = "succeeded"
                            node.finished_inside = True
                            self.api(("end", nid), a.finish)
                        env.stack.pop()
                        self.api(("exit", nid), cm.__exit__, None, None, None)
                else:
                    def f(*fa, **fkw):
                        if fa != (1, 2) or fkw != {"k": 3}:
                            rc.fail("run_args", "run() passed %r %r" % (fa, fkw))
                            raise Unwind()
                        env.stack.append((node, a))
                        try:
                            self.check_current(env, "enter:run")
                            drive_sync(self, self.x_body(op["body"], env))
                            if typed_succ:
                                self._typed_succ(node, a, typed_succ)
                        except (SimAbort, Unwind, Violation):
                            raise
                        except BaseException as ex:  # noqa
                            holder.inner = ex
                            raise
                        finally:
                            env.stack.pop()
                        return holder
                    r = self.api_thru(("run", nid), holder, a.run, f, 1, 2, k=3)
                    if r is not holder:
                        rc.fail("run_result", "run() returned %r" % (r,))
                        raise Unwind()
                self.check_current(env, "exit:%s" % style)
            except (SimAbort, Unwind, Violation):
                raise
            except BaseException as ex:  # noqa
                if ex is not holder.inner:
                    rc.fail("exception_replaced", "scope exit raised %r instead of %r" % (ex, holder.inner))
                    raise Unwind()
                if later:
                    yield ("join", later)
                if node.outcome is None:
                    self._model_fail(node, ex, env)
                    self.api(("end", nid), a.finish, ex)
                escaped = ex
            else:
                if later:
                    # the scope was left first; what it spawned is joined before the action is finished
                    rc.probe("scope_left_before_children_joined")
                    yield ("join", later)
                if node.outcome is None:
                    node.outcome = "succeeded"
                    self.api(("end", nid), a.finish)
        else:
            raise _sched.HarnessError("unknown style %r" % style)
        for gate in node.late_gates:
            gate.open()
        for _ in range(extra_finish):
            # finishing again emits nothing
            self.api(("refinish", nid), a.finish)
        self.check_current(env, "exit:%s" % style)
        if escaped is not None and not catch:
            if op.get("mutate_on_pass") and type(escaped) in (Exception, ValueError, AppError, AppSubError,
                                                              ZeroDivisionError, ExtractMe, ExtractSub):
                # a handler between two nested actions edits the exception and lets it go on
                escaped.args = ("changed while passing nid=%d" % nid,)
                rc.probe("exception_mutated_between_actions")
            raise escaped

    def _foreign_finish(self, a, nid, how):
        """finish() called on the action from another thread / another contextvars Context."""
        rc = self.rc
        rc.probe("finished_from_elsewhere_" + how)
        if how == "thread" and not self.async_mode and rc.sched is not None:
            interp = self
            rc.n_ff = getattr(rc, "n_ff", 0) + 1

            def fn():
                interp.actor_wrap(lambda: interp.api(("end", nid), a.finish), "ff")
            act = rc.sched.spawn("ff%d" % rc.n_ff, fn)
            rc.sched.yield_point("join")
            rc.sched.join(act)
        else:
            import contextvars
            contextvars.copy_context().run(lambda: self.api(("end", nid), a.finish))

    def _typed_succ(self, node, a, typed_succ):
        for k2, v in typed_succ.items():
            f = node.ser_succ.get(k2) if node.ser_succ else None
            node.succ[k2] = f.serialize(v) if (f is not None and not self.rc.faulty_values) else v
        self.api(("succ", node.nid), a.add_success_fields, **typed_succ)

    def _model_fail(self, node, ex, env=None):
        node.outcome = "failed"
        node.exc = ex
        # snapshot now: the same exception object may be changed before it fails the next action
        node.reason = exc_text(ex)
        node.exc_fields = self.rc.expected_extractor_fields(ex)
        if env is not None:
            self._extractor_failure(ex, env)

    def _extractor_failure(self, ex, env):
        """A failing extractor is swallowed and its traceback logged in the
        context current at that moment (model: one extra traceback message)."""
        boom = self.rc.extractor_failure(ex)
        if boom is not None:
            self.rc.count_fault("extr_raise")
            n = MMsg(None, "eliot:traceback", None, self.rc.actor_name(), tb=boom, loose=True)
            self.model.attach(n, env.top())

    def _act_log_call(self, op, env, node, holder):
        e = self.eliot
        rc = self.rc
        nid = op["nid"]
        args = _values.materialize(op["start"]) if rc.faulty_values else dict(op["start"])
        args["nid"] = nid
        include_result = op.get("include_result", True)
        include_args = op.get("include_args")
        names = list(args)
        result = op.get("result", 0)
        if rc.faulty_values:
            result = _values.materialize(result)
        catch = op.get("catch", False)
        interp = self

        def body_fn(**kw):
            if set(kw) != set(args) or any(kw[k2] is not args[k2] for k2 in kw):
                rc.fail("log_call_args", "wrapped function got other arguments than were passed")
                raise Unwind()
            a = e.current_action()
            node.obj = a
            env.stack.append((node, a))
            try:
                drive_sync(interp, interp.x_body(op["body"], env))
            except (SimAbort, Unwind, Violation):
                raise
            except BaseException as ex:  # noqa
                holder.inner = ex
                raise
            finally:
                env.stack.pop()
            return holder if not include_result else result

        # build a function with exactly these parameter names
        src = "def fn(%s):\n    return _body(%s)\n" % (
            ", ".join(names), ", ".join("%s=%s" % (n, n) for n in names))
        ns = {"_body": body_fn}
        exec(src, ns)
        fn = ns["fn"]
        fn.__module__ = "prog"
        fn.__qualname__ = "fn%d" % nid
        kw = {"action_type": op["atype"], "include_result": include_result}
        if include_args is not None:
            kw["include_args"] = include_args
            node.start = {k2: v for k2, v in node.start.items() if k2 in include_args}
        wrapped = self.api(("log_call", nid), e.log_call, **kw)(fn)
        escaped = None
        try:
            r = self.api_thru(("call", nid), holder, wrapped, **args)
        except (SimAbort, Unwind, Violation):
            raise
        except BaseException as ex:  # noqa
            if ex is not holder.inner:
                rc.fail("exception_replaced", "log_call raised %r instead of %r" % (ex, holder.inner))
                raise Unwind()
            self._model_fail(node, ex, env)
            escaped = ex
        else:
            node.outcome = "succeeded"
            if include_result:
                node.succ["result"] = result
                if r is not result:
                    rc.fail("log_call_result", "log_call returned a different object than the function")
                    raise Unwind()
            elif r is not holder:
                rc.fail("log_call_result", "log_call(include_result=False) returned %r" % (r,))
                raise Unwind()
        for gate in node.late_gates:
            gate.open()
        self.check_current(env, "exit:log_call")
        if escaped is not None and not catch:
            raise escaped
        return
        yield  # pragma: no cover  (makes this a generator)

    # ---------------------------------------------------------------- spawn
    def x_spawn(self, op, env, pending):
        e = self.eliot
        rc = self.rc
        kind = op["kind"]
        name = "t%d" % op["sid"]
        parent = env.top()
        if kind == "task":
            if not self.async_mode:
                raise _sched.HarnessError("task spawn outside ASYNC world")
            child_env = env.copy()
            t = self.loop.create_task(adrive(self, self.actor_body(op["body"], child_env, name), name), name=name)
            pending.append(t)
            if op.get("cancel") is not None:
                rc.count_fault("cancel_scheduled")
                self.loop.call_later(op["cancel"], self._cancel, t)
            return
        if self.async_mode:
            raise _sched.HarnessError("thread spawn inside ASYNC world")
        s = rc.sched
        if kind == "thread":
            child_env = Env()
            act = s.spawn(name, lambda: self.actor_main(op["body"], child_env, name))
            pending.append(act)
        elif kind == "preserve":
            child_env = Env()
            ran = []

            def fn(x):
                ran.append(x)
                a = e.current_action()
                if parent is not None:
                    child_env.stack.append((rnode, a))
                    rnode.obj = a
                try:
                    drive_sync(self, self.x_body(op["body"], child_env))
                finally:
                    if parent is not None:
                        child_env.stack.pop()
                return ran

            if parent is not None:
                rnode = MAction(None, "eliot:remote_task", {}, name, remote=True)
                self.model.attach(rnode, parent)
            wrapped = self.api(("preserve", op["sid"]), e.preserve_context, fn)
            if parent is None and wrapped is not fn:
                rc.fail("preserve_identity", "preserve_context(f) is not f without a current action")
                raise Unwind()

            def thread_fn():
                h = Holder()
                try:
                    r = self.api_thru(("preserved_call", op["sid"]), _AnyApp(), wrapped, 42)
                except (SimAbort, Unwind, Violation):
                    raise
                except BaseException as ex:  # noqa
                    if parent is not None:
                        self._model_fail(rnode, ex)
                        for gate in rnode.late_gates:
                            gate.open()
                    return
                if parent is not None:
                    rnode.outcome = "succeeded"
                    for gate in rnode.late_gates:
                        gate.open()
                if r is not ran or ran != [42]:
                    rc.fail("preserve_result", "preserved callable returned %r (ran=%r)" % (r, ran))
                    raise Unwind()

            how = op.get("how", "thread")
            if op.get("double") and parent is not None and how == "thread":
                # a dispatcher wraps the already preserved callable once more, inside another action B:
                # B gets its own remote child (which calls the first wrapper, which continues in `parent`)
                rc.probe("preserve_wrapped_twice")
                bnid = op["bnid"]
                bnode = MAction(bnid, "app:dispatch", {"nid": bnid}, rc.actor_name())
                self.model.attach(bnode, parent)
                b = self.api(("start", bnid), e.start_action, action_type="app:dispatch", nid=bnid)
                bnode.obj = b
                self.api(("enter", bnid), b.__enter__)
                env.stack.append((bnode, b))
                outer = MAction(None, "eliot:remote_task", {}, name, remote=True)
                self.model.attach(outer, bnode)
                inner_wrapped = wrapped
                wrapped2 = self.api(("preserve", op["sid"]), e.preserve_context, inner_wrapped)
                if wrapped2 is inner_wrapped:
                    rc.fail("preserve_identity", "preserve_context(g) returned g although there is a current action")
                    raise Unwind()
                wrapped = wrapped2
                outer.outcome = "succeeded"
                act = s.spawn(name, lambda: self.actor_wrap(thread_fn, name))
                s.yield_point("join")
                s.join(act)
                if rnode.outcome == "failed":
                    outer.outcome = "failed"
                    outer.exc = rnode.exc
                    outer.reason = rnode.reason
                    outer.exc_fields = rnode.exc_fields
                env.stack.pop()
                bnode.outcome = "succeeded"
                self.api(("end", bnid), b.__exit__, None, None, None)
            elif how == "inline":
                rc.probe("preserve_inline")
                thread_fn()
            elif how == "copyctx":
                rc.probe("preserve_copied_context")
                ctx = contextvars.copy_context()
                act = s.spawn(name, lambda: self.actor_wrap(lambda: ctx.run(thread_fn), name))
                pending.append(act)
            else:
                act = s.spawn(name, lambda: self.actor_wrap(thread_fn, name))
                pending.append(act)
        elif kind == "remote":
            if parent is None:
                child_env = Env()
                act = s.spawn(name, lambda: self.actor_main(op["body"], child_env, name))
                pending.append(act)
                return
            tid = self.api(("serialize", op["sid"]), env.top_obj().serialize_task_id)
            if not isinstance(tid, bytes):
                rc.fail("task_id_type", "serialize_task_id returned %r" % (tid,))
                raise Unwind()
            rc.task_ids.append(tid)
            nid = op["nid"]
            rfields = dict(op.get("start", {}))
            if rc.faulty_values:
                rfields = _values.materialize(rfields)
            rfields["nid"] = nid
            rnode = MAction(nid, op.get("atype", "eliot:remote_task"), dict(rfields), name, remote=True)
            self.model.attach(rnode, parent)
            self.model.reserved.append((tid, parent, rnode))
            rnode.started = False
            task_id = tid.decode("ascii") if op.get("as_str") else tid
            child_env = Env()
            body = [{"op": "_continue", "task_id": task_id, "node": rnode, "fields": rfields,
                     "atype": op.get("atype"), "body": op["body"], "catch": True}]
            if op.get("late"):
                # fire-and-forget hand-over: the remote side starts only after the originating action
                # has ended, and is joined at the very end of the run
                gate = _sched.SimGate()
                parent.late_gates.append(gate)
                rc.probe("late_remote")

                def late_main():
                    gate.wait()
                    return self.actor_main(body, child_env, name)
                rc.late_actors.append(s.spawn(name, late_main))
            else:
                act = s.spawn(name, lambda: self.actor_main(body, child_env, name))
                pending.append(act)
        else:
            raise _sched.HarnessError("unknown spawn kind %r" % kind)
        return
        yield  # pragma: no cover

    def _cancel(self, t):
        if not t.done():
            self.rc.count_fault("cancel")
            t.cancel()

    def x_continue(self, op, env):
        """continue_task in another thread / process (internal op)."""
        e = self.eliot
        rc = self.rc
        node = op["node"]
        kw = dict(op["fields"])
        if op.get("atype"):
            kw["action_type"] = op["atype"]
        a = self.api(("start", node.nid), e.Action.continue_task, task_id=op["task_id"], **kw)
        node.obj = a
        node.started = True
        self.api(("enter", node.nid), a.__enter__)
        env.stack.append((node, a))
        try:
            self.check_current(env, "enter:continue")
            yield from self.x_body(op["body"], env)
        except (SimAbort, Unwind, Violation):
            raise
        except BaseException as ex:  # noqa
            env.stack.pop()
            self._model_fail(node, ex, env)
            r = self.api(("end", node.nid), a.__exit__, type(ex), ex, ex.__traceback__)
            if r:
                rc.fail("swallowed", "__exit__ swallowed")
                raise Unwind()
        else:
            env.stack.pop()
            node.outcome = "succeeded"
            self.api(("end", node.nid), a.__exit__, None, None, None)
        for gate in node.late_gates:
            gate.open()

    # ---------------------------------------------------------------- actors
    def actor_body(self, ops, env, name):
        """Top level of an actor: runs ops, records what escapes."""
        rc = self.rc
        try:
            self.check_current(env, "start:%s" % name)
            yield from self.x_body(ops, env)
        except (SimAbort, Unwind):
            raise
        except Violation as v:
            rc.fail_v(v)
        except BaseException as ex:  # noqa
            rc.escaped.append((name, ex))

    def actor_main(self, ops, env, name):
        return self.actor_wrap(lambda: drive_sync(self, self.actor_body(ops, env, name)), name)

    def actor_wrap(self, fn, name):
        try:
            return fn()
        except Unwind:
            if self.rc.sched is not None and self.rc.sched.abort is None:
                self.rc.sched.abort = "violation"
        except SimAbort:
            pass
        except Violation as v:
            self.rc.fail_v(v)


class _AnyApp(object):
    """Holder that lets any exception pass as the application's own (used
    where the application code is behind eliot and we check identity later)."""

    @property
    def inner(self):
        import sys
        return sys.exc_info()[1]


# -------------------------------------------------------------- drivers
def drive_sync(interp, gen):
    """Serve the interpreter's requests synchronously (threads / SEQ)."""
    rc = interp.rc
    try:
        req = next(gen)
        while True:
            try:
                res = _serve_sync(rc, req)
            except BaseException as e:  # noqa
                req = gen.throw(e)
            else:
                req = gen.send(res)
    except StopIteration as s:
        return s.value


def _serve_sync(rc, req):
    s = rc.sched
    if req[0] == "pause":
        if s is not None:
            s.force_yield("pause")
        return None
    if req[0] == "join":
        for act in req[1]:
            s.yield_point("join")
            s.join(act)
        del req[1][:]
        return None
    raise _sched.HarnessError("bad request %r" % (req,))


async def adrive(interp, gen, name):
    """Serve the interpreter's requests by awaiting (ASYNC world)."""
    rc = interp.rc
    try:
        req = next(gen)
        while True:
            try:
                res = await _serve_async(rc, req)
            except BaseException as e:  # noqa
                req = gen.throw(e)
            else:
                req = gen.send(res)
    except StopIteration as s:
        return s.value
    except (SimAbort, Unwind):
        # the run is over (violation recorded / budget exceeded)
        rc.aborted = True
        return None


async def _serve_async(rc, req):
    if req[0] == "pause":
        rc.pauses += 1
        # the delay is a scheduling decision, not part of the program
        await asyncio.sleep(rc.sched_stream.choose(4, "delay") * 0.001)
        return None
    if req[0] == "join":
        pending = set(req[1])
        saved = None
        while pending:
            try:
                done, pending = await asyncio.wait(pending)
            except asyncio.CancelledError as c:
                saved = c
                for t in pending:
                    t.cancel()
        del req[1][:]
        if saved is not None:
            raise saved
        return None
    raise _sched.HarnessError("bad request %r" % (req,))
