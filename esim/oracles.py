"""Oracles shared by several properties."""

import json
import re

from .driver import Violation, class_path, exc_text, MAction, MMsg
from .values import canon, canon_fields, short

META = ("task_uuid", "task_level", "timestamp")


def decode_lines(data):
    """Split durable bytes at newlines -> (list of decoded dicts, raw lines, tail fragment).

    Raises Violation("bad_line") if a complete line is not a UTF-8 JSON object."""
    parts = data.split(b"\n")
    tail = parts.pop()
    out = []
    for i, raw in enumerate(parts):
        try:
            d = json.loads(raw.decode("utf-8"))
        except Exception as e:  # noqa
            raise Violation("bad_line", "line %d is not UTF-8 JSON: %r (%s)" % (i, raw[:200], e))
        if not isinstance(d, dict):
            raise Violation("bad_line", "line %d is not a JSON object: %r" % (i, raw[:200]))
        out.append(d)
    return out, parts, tail


_TB_NID = re.compile(r"tb nid=(\d+)")


def nid_of(msg):
    """The model nid a message dict carries, or None (end messages, remote
    starts created by preserve_context, failure reports)."""
    if "action_status" in msg and msg.get("action_status") != "started":
        return None
    n = msg.get("nid")
    if isinstance(n, int) and not isinstance(n, bool):
        return n
    if msg.get("message_type") == "eliot:traceback":
        m = _TB_NID.search(str(msg.get("reason", "")))
        if m:
            return int(m.group(1))
    return None


def contents_of(written):
    d = dict(written.contents)
    return d


def check_fields(got, want, what, prop_kind="field_mismatch"):
    if canon_fields(got) != canon_fields(want):
        gk, wk = set(got), set(want)
        if gk != wk:
            raise Violation(prop_kind, "%s: field names differ: missing %s, extra %s" % (
                what, sorted(wk - gk), sorted(gk - wk)))
        for k in sorted(want):
            if canon(got[k]) != canon(want[k]):
                raise Violation(prop_kind, "%s: field %r is %s, logged %s" % (
                    what, k, short(got[k]), short(want[k])))


def expected_end_fields(node):
    if node.outcome == "succeeded":
        return dict(node.succ)
    e = node.exc
    d = dict(node.exc_fields)
    d.pop("action_status", None)
    # the class path and the text are eliot's to state: an extractor cannot override them
    d.update({"exception": class_path(type(e)),
              "reason": node.reason if getattr(node, "reason", None) is not None else exc_text(e)})
    return d


def compare_message(written, node, where):
    c = contents_of(written)
    if node.tb is not None:
        if c.get("message_type") != "eliot:traceback":
            raise Violation("type_mismatch", "%s: expected a traceback message, got %s" % (where, short(c)))
        e = node.tb
        if c.get("exception") != class_path(type(e)):
            raise Violation("field_mismatch", "%s: traceback exception %r != %r" % (
                where, c.get("exception"), class_path(type(e))))
        if c.get("reason") != exc_text(e):
            raise Violation("field_mismatch", "%s: traceback reason %r != %r" % (
                where, c.get("reason"), exc_text(e)))
        tb = c.get("traceback")
        if not isinstance(tb, str) or type(e).__name__ not in tb:
            raise Violation("field_mismatch", "%s: traceback text %s" % (where, short(tb)))
        if not node.loose and node.fields is not None:
            extra = {k: v for k, v in c.items()
                     if k not in ("message_type", "reason", "exception", "traceback")}
            check_fields(extra, node.fields, where + " traceback extractor fields")
        return
    if c.get("message_type") != node.mtype:
        raise Violation("type_mismatch", "%s: message_type %r, logged %r" % (
            where, c.get("message_type"), node.mtype))
    c.pop("message_type", None)
    check_fields(c, node.fields, where)


def _is_library_extra(k):
    """A plain message of eliot's own (message_type "eliot:...") that carries no program id."""
    from eliot.parse import WrittenMessage
    if not isinstance(k, WrittenMessage):
        return False
    c = contents_of(k)
    mt = c.get("message_type")
    return isinstance(mt, str) and mt.startswith("eliot:") and nid_of(dict(k.as_dict())) is None


def _matches(k, w):
    """Does parsed child ``k`` stand for model child ``w``?  (identity only: kind and program id, or -- for
    the program's own anonymous tracebacks -- the exception text)"""
    from eliot.parse import WrittenAction, WrittenMessage
    if w.kind == "action":
        if not isinstance(k, WrittenAction):
            return False
        if w.nid is None:
            return True
        return (nid_of(dict(k.start_message.as_dict())) if k.start_message else None) == w.nid
    if not isinstance(k, WrittenMessage):
        return False
    if w.nid is not None:
        return nid_of(dict(k.as_dict())) == w.nid
    if w.tb is not None:
        c = contents_of(k)
        return c.get("message_type") == "eliot:traceback" and c.get("reason") == exc_text(w.tb)
    return nid_of(dict(k.as_dict())) is None


def _align_lenient(kids, want, where):
    """Lenient pairing: messages eliot logs on its own account (reports about its own failures, whatever a
    later version adds) are not the program's; where they are placed is no business of a property that
    does not talk about them.  Model nodes standing for such messages (``loose``) are dropped, parsed
    children that are library messages matching nothing the program did are skipped."""
    want = [w for w in want if not getattr(w, "loose", False)]
    pairs = []
    i = 0
    for k in kids:
        if i < len(want) and _matches(k, want[i]):
            pairs.append((k, want[i]))
            i += 1
        elif _is_library_extra(k):
            continue
        else:
            if i < len(want):
                _misplaced(k, want[i], "%s/%d" % (where, i + 1))
            raise Violation("duplicated", "%s: parser has %s, the program performed nothing more there" % (
                where, short(k, 120)))
    if i < len(want):
        raise Violation("lost", "%s: %d children performed, only %d of them parsed (next missing: %r)" % (
            where, len(want), i, want[i]))
    return pairs


def compare_action(written, node, where, order_free=False, lenient=False, fields=True, status=True):
    from eliot.parse import WrittenAction, WrittenMessage
    if not isinstance(written, WrittenAction):
        raise Violation("reparented", "%s: expected action nid=%s, parser has %s" % (
            where, node.nid, short(written)))
    sm = written.start_message
    if sm is None:
        raise Violation("lost", "%s: start message of action nid=%s missing" % (where, node.nid))
    sc = contents_of(sm)
    if sc.get("action_type") != node.atype:
        raise Violation("type_mismatch", "%s: action_type %r, started as %r" % (
            where, sc.get("action_type"), node.atype))
    if sc.get("action_status") != "started":
        raise Violation("status_mismatch", "%s: start status %r" % (where, sc.get("action_status")))
    sc.pop("action_type", None)
    sc.pop("action_status", None)
    if fields:
        check_fields(sc, node.start, where + " start")
    em = written.end_message
    if not status:
        # (whether and how the action ended is not this property's business: structure only)
        pass
    elif node.outcome is None:
        if em is not None:
            raise Violation("status_mismatch", "%s: has an end message but never finished" % where)
    else:
        if em is None:
            raise Violation("lost", "%s: end message of action nid=%s missing" % (where, node.nid))
        ec = contents_of(em)
        if ec.get("action_status") != node.outcome:
            raise Violation("status_mismatch", "%s: end status %r, body outcome %r" % (
                where, ec.get("action_status"), node.outcome))
        if ec.get("action_type") != node.atype:
            raise Violation("type_mismatch", "%s: end action_type %r" % (where, ec.get("action_type")))
        if written.status != node.outcome:
            raise Violation("status_mismatch", "%s: WrittenAction.status %r" % (where, written.status))
        ec.pop("action_type", None)
        ec.pop("action_status", None)
        if fields:
            check_fields(ec, expected_end_fields(node), where + " end")
    kids = list(written.children)
    want = list(node.children)
    if lenient:
        pairs = _align_lenient(kids, want, where)
        for i, (k, w) in enumerate(pairs):
            sub = "%s/%d" % (where, i + 1)
            if w.kind == "action":
                compare_action(k, w, sub, order_free, lenient, fields, status)
            elif fields:
                compare_message(k, w, sub)
        return
    if len(kids) != len(want):
        kind = "lost" if len(kids) < len(want) else "duplicated"
        if len(kids) > len(want) and any(_is_library_extra(k) for k in kids) and \
                len([k for k in kids if not _is_library_extra(k)]) <= len(want):
            kind = "extra_library_message"       # a message of eliot's own that the program did not perform
        raise Violation(kind, "%s: %d children parsed, %d performed (%s vs %s)" % (
            where, len(kids), len(want), [short(k, 60) for k in kids], want))
    if order_free:
        pairs = _match_unordered(kids, want, where)
    else:
        pairs = list(zip(kids, want))
    for i, (k, w) in enumerate(pairs):
        sub = "%s/%d" % (where, i + 1)
        if w.kind == "action":
            if not isinstance(k, WrittenAction):
                _misplaced(k, w, sub)
            if w.nid is not None:
                got = nid_of(dict(k.start_message.as_dict())) if k.start_message else None
                if got != w.nid:
                    raise Violation("reordered", "%s: action nid=%s found where nid=%s was performed" % (
                        sub, got, w.nid))
            compare_action(k, w, sub, order_free, lenient, fields, status)
        else:
            if not isinstance(k, WrittenMessage):
                _misplaced(k, w, sub)
            got = nid_of(dict(k.as_dict()))
            if got != w.nid:
                raise Violation("reordered", "%s: message nid=%s found where nid=%s was logged" % (
                    sub, got, w.nid))
            compare_message(k, w, sub)


def _misplaced(k, w, sub):
    raise Violation("reordered", "%s: parser has %s where the program performed %r" % (sub, short(k, 120), w))


def _key_of_written(k):
    from eliot.parse import WrittenAction
    if isinstance(k, WrittenAction):
        return nid_of(dict(k.start_message.as_dict())) if k.start_message else None
    return nid_of(dict(k.as_dict()))


def _match_unordered(kids, want, where):
    by = {}
    for k in kids:
        by.setdefault(_key_of_written(k), []).append(k)
    pairs = []
    for w in want:
        lst = by.get(w.nid)
        if not lst:
            raise Violation("lost", "%s: child nid=%s not among parsed children" % (where, w.nid))
        pairs.append((lst.pop(0), w))
    return pairs


def check_forest(messages, model, order_free=False, require_complete=True, lenient=False, fields=True,
                 status=True):
    """Feed decoded messages to the real Parser and compare with the model.

    Strict (default): the parsed forest IS the model forest, node for node, field for field (C01's
    statement).  ``lenient``: messages eliot logs on its own account may come on top, anywhere, and the
    model's predictions of such messages are not insisted on; ``fields=False``: only who is whose child, in
    which order and with which status -- for properties that say nothing about field values."""
    from eliot.parse import Parser, WrittenAction, WrittenMessage
    # 1. accounting by nid
    seen = {}
    for m in messages:
        n = nid_of(m)
        if n is not None:
            seen[n] = seen.get(n, 0) + 1
    for node in model.all_nodes():
        if node.nid is None:
            continue
        if node.kind == "action" and not node.started:
            continue
        c = seen.get(node.nid, 0)
        if c == 0:
            raise Violation("lost", "nothing in the log for %r" % (node,))
        if c > 1:
            raise Violation("duplicated", "%d log lines for %r" % (c, node))
    # 2. parse
    try:
        tasks = list(Parser.parse_stream(messages))
    except Exception as e:  # noqa
        raise Violation("parse_error", "Parser raised %s: %s" % (type(e).__name__, str(e)[:300]))
    roots = {}
    anon = []
    for t in tasks:
        try:
            r = t.root()
        except KeyError:
            raise Violation("reparented", "a parsed task has no root node: %s" % short(t, 300))
        if isinstance(r, WrittenAction):
            key = nid_of(dict(r.start_message.as_dict())) if r.start_message else None
        else:
            key = nid_of(dict(r.as_dict()))
        if key is None:
            anon.append(t)
            continue
        if key in roots:
            raise Violation("duplicated", "two parsed tasks for root nid=%s" % key)
        roots[key] = t
    want_roots = [r for r in model.roots]
    if lenient:
        want_roots = [r for r in want_roots if not getattr(r, "loose", False)]
        keep = []
        for t in anon:
            r0 = t.root()
            if isinstance(r0, WrittenMessage) and _is_library_extra(r0) and not any(
                    n.nid is None and n.tb is not None and _matches(r0, n) for n in want_roots):
                continue
            keep.append(t)
        kept_ids = set(id(t) for t in keep) | set(id(t) for t in roots.values())
        tasks = [t for t in tasks if id(t) in kept_ids]
        anon = keep
    if len(tasks) != len(want_roots):
        kind = "lost" if len(tasks) < len(want_roots) else "extra_task"
        raise Violation(kind, "%d tasks parsed, %d top-level actions/messages performed (parsed roots %s)" % (
            len(tasks), len(want_roots), sorted(roots, key=str)))
    uuids = set()
    for node in want_roots:
        if node.nid is None:
            # anonymous roots (extractor-failure tracebacks outside any action): in order
            t = None
            for cand in anon:
                cr = cand.root()
                if isinstance(cr, WrittenMessage) and node.tb is not None and \
                        cr.contents.get("reason") == exc_text(node.tb):
                    t = cand
                    break
            if t is not None:
                anon.remove(t)
        else:
            t = roots.get(node.nid)
        if t is None:
            raise Violation("reparented", "no parsed task is rooted at %r (roots: %s)" % (
                node, sorted(roots, key=str)))
        r = t.root()
        where = "task[nid=%s]" % node.nid
        if node.kind == "action":
            compare_action(r, node, where, order_free, lenient, fields, status)
            complete = node.outcome is not None and _all_finished(node)
        else:
            if not isinstance(r, WrittenMessage):
                raise Violation("reparented", "%s: expected a one-message task" % where)
            if fields:
                compare_message(r, node, where)
            complete = True
        if require_complete and t.is_complete() != complete:
            raise Violation("completeness", "%s: is_complete()=%s, program finished it: %s" % (
                where, t.is_complete(), complete))
        u = r.task_uuid
        if u in uuids:
            raise Violation("duplicated", "two tasks share task_uuid %s" % u)
        uuids.add(u)
        _check_one_uuid(r, u, where)
    return tasks


def _all_finished(node):
    if node.outcome is None:
        return False
    return all(_all_finished(c) for c in node.children if c.kind == "action")


def _check_one_uuid(written, uuid, where):
    from eliot.parse import WrittenAction
    if written.task_uuid != uuid:
        raise Violation("reparented", "%s: node has task_uuid %s, root %s" % (where, written.task_uuid, uuid))
    if isinstance(written, WrittenAction):
        for c in written.children:
            _check_one_uuid(c, uuid, where)


def account(messages, model, allow_types=(), lenient=False, ends=True):
    """Exact accounting of message kinds against the model: lost or
    duplicated start/end/plain messages cannot hide behind the parser.
    ``lenient``: plain messages are counted by program id only (what eliot logs on its own account is not
    counted, neither in the log nor in the model)."""
    ends_ok_to_check = ends
    starts = ends = plain = 0
    if lenient:
        messages = [m for m in messages if "action_status" in m or nid_of(m) is not None]
    for m in messages:
        if m.get("message_type") in allow_types and "action_status" not in m:
            continue
        st = m.get("action_status")
        if st == "started":
            starts += 1
        elif st in ("succeeded", "failed"):
            ends += 1
        else:
            plain += 1
    acts = model.all_actions()
    want_starts = sum(1 for a in acts if a.started)
    want_ends = sum(1 for a in acts if a.outcome is not None and a.started)
    want_plain = sum(1 for n in model.all_nodes() if n.kind == "msg" and not (lenient and n.nid is None))
    if starts != want_starts:
        raise Violation(("start_count", {"dir": "more" if starts > want_starts else "fewer"}),
                        "%d start messages emitted, %d actions started" % (starts, want_starts))
    if ends_ok_to_check and ends != want_ends:
        raise Violation(("end_count", {"dir": "more" if ends > want_ends else "fewer"}),
                        "%d end messages emitted, %d actions finished" % (ends, want_ends))
    if plain != want_plain:
        raise Violation(("message_count", {"dir": "more" if plain > want_plain else "fewer"}),
                        "%d plain messages emitted, %d logged" % (plain, want_plain))


def canonical_forest(messages):
    """Schedule-independent canonical form of the parsed forest: uuids,
    levels and timestamps removed, siblings sorted."""
    from eliot.parse import Parser, WrittenAction

    def strip(d):
        mt = d.get("message_type")
        at = d.get("action_type")
        if "nid" not in d and ((isinstance(mt, str) and mt.startswith("eliot:")) or
                               (isinstance(at, str) and at.startswith("eliot:"))):
            # eliot's own messages: where they sit is compared, what they say (renderings, ids) is not
            return canon_fields({k: v for k, v in d.items() if k in ("message_type", "action_type", "action_status")})
        return canon_fields({k: v for k, v in d.items() if k not in META})

    def node(n):
        if isinstance(n, WrittenAction):
            s = strip(dict(n.start_message.as_dict())) if n.start_message else None
            e = strip(dict(n.end_message.as_dict())) if n.end_message else None
            return ("A", s, e, tuple(sorted((node(c) for c in n.children), key=repr)))
        return ("M", strip(dict(n.as_dict())))

    tasks = list(Parser.parse_stream(messages))
    # (one-message tasks of eliot's own -- notices, reports filed outside every action -- are not the program's)
    return tuple(sorted((node(t.root()) for t in tasks if not _is_library_extra(t.root())), key=repr))
