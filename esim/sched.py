"""Baton-passing scheduler over real threads, plus sim Lock/RLock/Queue/Thread.

Exactly one *actor* thread runs at any time.  An actor gives the baton away
only at a *yield point*: a sim primitive (lock, queue, thread start/join, file
write/flush, destination call, explicit pause) or -- granularity ``line`` --
a ``sys.monitoring`` LINE event inside one of eliot's own code objects.  Who
runs next is drawn from the run's ``sched`` decision stream, so a run is a
pure function of its decision streams.

Real OS threads are used on purpose: each has a genuinely fresh
``contextvars`` context, which is the behaviour eliot's per-thread action
context relies on.
"""

import contextvars
import gc
import os
import sys
import threading
import types
from _thread import get_ident

RUNNABLE, BLOCKED, DONE = "runnable", "blocked", "done"

_real_Thread = threading.Thread
_real_Lock = threading.Lock
_real_Semaphore = threading.Semaphore
_real_Event = threading.Event

# The single active scheduler of this process (None outside runs).
_CURRENT = None


class HarnessError(Exception):
    """Something is wrong with the simulator itself (never a violation)."""


class SimAbort(BaseException):
    """Sticky unwinding of an actor (step budget exceeded, deadlock)."""


class ChildWouldBlock(BaseException):
    """In a child forked out of a running simulation (it has only the forking thread): the thread would have to
    wait for something only a thread of the parent could release."""


def _after_fork_in_child():
    # Registered before eliot is imported, so it runs before any at-fork handler of eliot's: from the first
    # line the child executes, the scheduler of the run it was forked out of must not try to hand the baton to
    # threads that do not exist here.
    s = _CURRENT
    if s is not None:
        s.forked_child = True
        s.p_switch = 0.0
        del s.observers[:]


try:
    os.register_at_fork(after_in_child=_after_fork_in_child)
except AttributeError:      # pragma: no cover
    pass


class Actor(object):
    __slots__ = ("name", "thread", "sem", "state", "blocked_on", "result",
                 "exc", "fn", "ident", "index", "call_lines", "data")

    def __init__(self, name, fn, index):
        self.name = name
        self.fn = fn
        self.index = index
        self.thread = None
        self.sem = _real_Semaphore(0)
        self.state = RUNNABLE
        self.blocked_on = None
        self.result = None
        self.exc = None
        self.ident = None
        self.call_lines = 0
        self.data = {}

    def __repr__(self):
        return "<Actor %s %s>" % (self.name, self.state)


def current_sched():
    return _CURRENT


def current_actor():
    s = _CURRENT
    if s is None:
        return None
    return s.by_ident.get(get_ident())


class Sched(object):
    """One run's scheduler."""

    def __init__(self, stream, p_switch=0.0, gran="op", max_steps=200000,
                 call_budget=None, traced=None):
        self.stream = stream
        self.p_switch = p_switch
        self.gran = gran            # "op" | "line"
        self.max_steps = max_steps
        self.call_budget = call_budget
        self.traced = traced        # None = every monitored file; else set of basenames
        self.actors = []
        self.by_ident = {}
        self.current = None
        self.steps = 0
        self.line_events = 0
        self.switches = 0
        self.switch_sig = 0         # rolling hash of (from, to, tag) triples
        self.deadlock = None
        self.abort = None           # sticky reason -> SimAbort at every line event
        self.abort_info = None
        self.observers = []         # callables(sched, actor, tag) run at every yield point
        self.forked_child = False   # set in a child forked out of this run (see _after_fork_in_child)
        self.all_done = _real_Event()
        self.seq = 0                # global event sequence number (stamps)
        self.probes = {}

    # ------------------------------------------------------------------ utils
    def stamp(self):
        self.seq += 1
        return self.seq

    def probe(self, name, n=1):
        self.probes[name] = self.probes.get(name, 0) + n

    # ---------------------------------------------------------------- running
    def run_main(self, fn, name="main"):
        """Run ``fn`` as actor 0 in the calling thread (fresh context).

        Returns fn's result; re-raises what it raised.  When it returns every
        actor has finished, or ``self.deadlock`` is set.
        """
        global _CURRENT
        if _CURRENT is not None:
            raise HarnessError("nested scheduler")
        a = Actor(name, fn, 0)
        a.ident = get_ident()
        self.actors.append(a)
        self.by_ident[a.ident] = a
        self.current = a
        _CURRENT = self
        try:
            try:
                a.result = contextvars.Context().run(fn)
            except BaseException as e:  # noqa
                a.exc = e
            self._finish(a)
            if not self.all_done.wait(120):
                raise HarnessError("scheduler did not finish (lost baton?)")
            if self.abort == "exit":
                self.abort = None
        finally:
            _CURRENT = None
            self.by_ident.pop(a.ident, None)
        if a.exc is not None:
            raise a.exc
        return a.result

    def spawn(self, name, fn):
        """Create a new runnable actor (real thread, parked until scheduled)."""
        a = Actor(name, fn, len(self.actors))
        self.actors.append(a)
        t = _real_Thread(target=self._thread_main, args=(a,), name=name)
        t.daemon = True
        a.thread = t
        started = _real_Event()
        a.data["_started"] = started
        t.start()
        started.wait()
        return a

    def _thread_main(self, a):
        a.ident = get_ident()
        self.by_ident[a.ident] = a
        a.data.pop("_started").set()
        a.sem.acquire()
        try:
            a.result = a.fn()
        except BaseException as e:  # noqa
            a.exc = e
        self._finish(a)

    def _finish(self, a):
        a.state = DONE
        if a.index:
            # thread idents are recycled by the OS once a thread exits
            self.by_ident.pop(a.ident, None)
        self._wake(a)
        nxt = self._runnable()
        if not nxt:
            blocked = [b for b in self.actors if b.state == BLOCKED]
            if blocked:
                # nobody can run: a deadlock (or the rest of an aborted run).  Release every
                # blocked actor; each wakes up inside _switch, sees the abort and unwinds.
                if self.abort is None:
                    if a.index == 0 and all(getattr(b.data.get("simthread"), "daemon", False) for b in blocked):
                        # the main thread is done and only daemon threads are left, parked for ever (a writer
                        # waiting on its queue): that is how a process with daemon threads ends, no deadlock
                        self.probes["daemon_threads_parked_at_exit"] = self.probes.get("daemon_threads_parked_at_exit", 0) + 1
                        self.abort = "exit"
                    else:
                        self.deadlock = [(b.name, repr(b.blocked_on)) for b in blocked]
                        self.abort = "deadlock"
                for b in blocked:
                    b.state = RUNNABLE
                    b.blocked_on = None
                nxt = blocked
        if nxt:
            n = nxt[self.stream.choose(len(nxt), "next-after-exit") if self.abort is None else 0]
            self.current = n
            n.sem.release()
        else:
            self.current = None
            self.all_done.set()

    def _runnable(self, exclude=None):
        return [b for b in self.actors if b.state == RUNNABLE and b is not exclude]

    def _switch(self, a, nxt, tag):
        self.switches += 1
        self.switch_sig = hash((self.switch_sig, a.index, nxt.index, tag)) & 0xFFFFFFFFFFFF
        self.current = nxt
        nxt.sem.release()
        a.sem.acquire()
        if self.abort is not None and a.state != DONE:
            raise SimAbort(self.abort)

    # ------------------------------------------------------------ yield points
    def yield_point(self, tag):
        a = self.by_ident.get(get_ident())
        if a is None or self.forked_child:
            return
        if self.abort is not None:
            raise SimAbort(self.abort)
        self.steps += 1
        if self.steps > self.max_steps:
            self.abort = "step budget"
            raise SimAbort(self.abort)
        for ob in self.observers:
            ob(self, a, tag)
        if self.p_switch <= 0:
            return
        others = self._runnable(exclude=a)
        if not others:
            return
        if self.stream.chance(self.p_switch, "preempt?"):
            nxt = others[self.stream.choose(len(others), "who")]
            self._switch(a, nxt, tag if isinstance(tag, str) else tag[0])

    def force_yield(self, tag="pause"):
        """Explicit pause op: switch with probability 1/2 if anyone can run."""
        a = self.by_ident.get(get_ident())
        if a is None or self.forked_child:
            return
        self.steps += 1
        for ob in self.observers:
            ob(self, a, tag)
        others = self._runnable(exclude=a)
        if others and self.stream.chance(0.5, "pause-switch?"):
            nxt = others[self.stream.choose(len(others), "who")]
            self._switch(a, nxt, tag)

    def block_on(self, obj):
        """Current actor cannot proceed until ``wake(obj)``."""
        a = self.by_ident.get(get_ident())
        if self.forked_child:
            raise ChildWouldBlock("waiting for %r, which only a thread of the parent process could release" % (obj,))
        if a is None:
            raise HarnessError("blocking outside an actor")
        a.state = BLOCKED
        a.blocked_on = obj
        others = self._runnable()
        if not others:
            if self.abort is None:
                waiting = [b for b in self.actors if b.state == BLOCKED]
                if self.actors[0].state == DONE and all(
                        getattr(b.data.get("simthread"), "daemon", False) for b in waiting):
                    # the main thread is done; what is left are daemon threads going to sleep for good
                    self.probes["daemon_threads_parked_at_exit"] = self.probes.get("daemon_threads_parked_at_exit", 0) + 1
                    self.abort = "exit"
                else:
                    self.deadlock = [(b.name, repr(b.blocked_on)) for b in waiting]
                    self.abort = "deadlock"
            a.state = RUNNABLE
            a.blocked_on = None
            raise SimAbort(self.abort)
        nxt = others[self.stream.choose(len(others), "who-after-block")]
        self._switch(a, nxt, "block")

    def _wake(self, obj):
        for b in self.actors:
            if b.state == BLOCKED and b.blocked_on is obj:
                b.state = RUNNABLE
                b.blocked_on = None

    wake = _wake

    def join(self, actor):
        while actor.state != DONE:
            self.block_on(actor)

    # -------------------------------------------------------------- line events
    def on_line(self, a, code, lineno):
        if self.abort is not None:
            raise SimAbort(self.abort)
        self.line_events += 1
        if self.call_budget is not None:
            a.call_lines += 1
            if a.call_lines > self.call_budget:
                self.abort = "call budget"
                self.abort_info = a.data.get("call")
                raise SimAbort(self.abort)
        if self.gran == "line":
            base = _BASENAME.get(code)
            if base is None:
                base = _BASENAME[code] = code.co_filename.rsplit("/", 1)[-1]
            if self.traced is None or base in self.traced:
                self.yield_point(("line", base, lineno))


# --------------------------------------------------------------------------
# sys.monitoring glue

_TOOL = None
_MONITORED = set()
_BASENAME = {}


def _on_line(code, lineno):
    s = _CURRENT
    if s is None:
        return
    a = s.by_ident.get(get_ident())
    if a is None:
        return
    s.on_line(a, code, lineno)


def eliot_code_objects(src_dir, basenames=None):
    """Every live code object defined in files under ``src_dir`` (found via
    the function objects the GC knows, so decorator closures are included)."""
    out = {}

    def walk(c):
        if id(c) in out:
            return
        out[id(c)] = c
        for k in c.co_consts:
            if isinstance(k, types.CodeType):
                walk(k)

    prefix = src_dir.rstrip("/") + "/"
    for o in gc.get_objects():
        if isinstance(o, types.FunctionType):
            c = o.__code__
            fn = c.co_filename
            if fn.startswith(prefix) and "/tests/" not in fn:
                if basenames is None or fn.rsplit("/", 1)[-1] in basenames:
                    walk(c)
    return list(out.values())


def enable_monitoring(src_dir, basenames=None):
    """Turn on LINE events for eliot's code objects (idempotent)."""
    global _TOOL
    mon = sys.monitoring
    if _TOOL is None:
        for tid in (3, 4, 2, 1):
            if mon.get_tool(tid) is None:
                mon.use_tool_id(tid, "esim")
                _TOOL = tid
                break
        else:
            raise HarnessError("no free sys.monitoring tool id")
        mon.register_callback(_TOOL, mon.events.LINE, _on_line)
    n = 0
    for c in eliot_code_objects(src_dir, basenames):
        if id(c) not in _MONITORED:
            mon.set_local_events(_TOOL, c, mon.events.LINE)
            _MONITORED.add(id(c))
            n += 1
    return n


# --------------------------------------------------------------------------
# Sim primitives (same API as the stdlib ones they stand in for)

class SimLock(object):
    """threading.Lock stand-in.  Inside a run it blocks *logically*."""

    def __init__(self):
        self._locked = False
        self._owner = None

    def acquire(self, blocking=True, timeout=-1):
        s = _CURRENT
        a = s.by_ident.get(get_ident()) if s is not None else None
        if a is None:
            if self._locked:
                if not blocking:
                    return False
                raise HarnessError("SimLock would block outside a run")
            self._locked = True
            return True
        s.yield_point("lock.acquire")
        while self._locked:
            if not blocking:
                return False
            s.probe("lock_contended")
            if timeout is not None and timeout >= 0:
                # a timed acquire of a held lock: the holder may be arbitrarily slow, so the timeout may expire
                # first -- the scheduler decides (when nobody else can run it expires for sure)
                if not s._runnable(exclude=a) or s.stream.chance(0.3, "acquire-timeout-expires"):
                    s.probe("timed_acquire_expired")
                    return False
                s.force_yield("lock.acquire.timed")
                continue
            s.block_on(self)
        self._locked = True
        self._owner = a
        return True

    def release(self):
        if not self._locked:
            raise RuntimeError("release unlocked lock")
        self._locked = False
        self._owner = None
        s = _CURRENT
        if s is not None and s.by_ident.get(get_ident()) is not None:
            s.wake(self)
            s.yield_point("lock.release")

    def locked(self):
        return self._locked

    def _at_fork_reinit(self):
        # what the real lock types offer (and the stdlib uses) to make a lock usable again in a forked child
        self._locked = False
        self._owner = None

    def __enter__(self):
        self.acquire()
        return True

    def __exit__(self, *a):
        self.release()

    def __repr__(self):
        return "<SimLock locked=%s>" % self._locked


class SimRLock(object):
    def __init__(self):
        self._owner = None
        self._count = 0

    def acquire(self, blocking=True, timeout=-1):
        s = _CURRENT
        a = s.by_ident.get(get_ident()) if s is not None else None
        me = a if a is not None else get_ident()
        if self._owner is me:
            self._count += 1
            return True
        if a is None:
            if self._owner is not None:
                if not blocking:
                    return False
                raise HarnessError("SimRLock would block outside a run")
            self._owner, self._count = me, 1
            return True
        s.yield_point("rlock.acquire")
        while self._owner is not None:
            if not blocking:
                return False
            if timeout is not None and timeout >= 0:
                if not s._runnable(exclude=a) or s.stream.chance(0.3, "acquire-timeout-expires"):
                    s.probe("timed_acquire_expired")
                    return False
                s.force_yield("rlock.acquire.timed")
                continue
            s.block_on(self)
        self._owner, self._count = me, 1
        return True

    def _at_fork_reinit(self):
        self._owner = None
        self._count = 0

    def release(self):
        if self._owner is None:
            raise RuntimeError("cannot release un-acquired lock")
        self._count -= 1
        if self._count == 0:
            self._owner = None
            s = _CURRENT
            if s is not None and s.by_ident.get(get_ident()) is not None:
                s.wake(self)
                s.yield_point("rlock.release")

    def __enter__(self):
        self.acquire()
        return True

    def __exit__(self, *a):
        self.release()


class SimGate(object):
    """One-shot event: wait() blocks logically until open()."""

    def __init__(self):
        self.is_open = False

    def wait(self):
        s = _CURRENT
        while not self.is_open:
            s.block_on(self)

    def open(self):
        self.is_open = True
        s = _CURRENT
        if s is not None:
            s.wake(self)

    def __repr__(self):
        return "<SimGate open=%s>" % self.is_open


class SimEvent(object):
    """threading.Event stand-in: wait() blocks logically; a timed wait may expire by scheduler decision."""

    def __init__(self):
        self._flag = False

    def is_set(self):
        return self._flag

    isSet = is_set

    def set(self):
        self._flag = True
        s = _CURRENT
        if s is not None and s.by_ident.get(get_ident()) is not None:
            s.wake(self)
            s.yield_point("event.set")

    def clear(self):
        self._flag = False

    def wait(self, timeout=None):
        s = _CURRENT
        a = s.by_ident.get(get_ident()) if s is not None else None
        if a is None:
            if not self._flag:
                raise HarnessError("SimEvent.wait would block outside a run")
            return True
        s.yield_point("event.wait")
        while not self._flag:
            if timeout is not None:
                if not s._runnable(exclude=a) or s.stream.chance(0.3, "wait-timeout-expires"):
                    s.probe("timed_wait_expired")
                    return False
                s.force_yield("event.wait.timed")
                continue
            s.block_on(self)
        return True

    def __repr__(self):
        return "<SimEvent set=%s>" % self._flag


class SimSemaphore(object):
    """threading.Semaphore / BoundedSemaphore stand-in."""

    def __init__(self, value=1):
        self._value = value

    def acquire(self, blocking=True, timeout=None):
        s = _CURRENT
        a = s.by_ident.get(get_ident()) if s is not None else None
        if a is None:
            if self._value <= 0:
                if not blocking:
                    return False
                raise HarnessError("SimSemaphore would block outside a run")
            self._value -= 1
            return True
        s.yield_point("sem.acquire")
        while self._value <= 0:
            if not blocking:
                return False
            if timeout is not None:
                if not s._runnable(exclude=a) or s.stream.chance(0.3, "sem-timeout-expires"):
                    return False
                s.force_yield("sem.wait.timed")
                continue
            s.block_on(self)
        self._value -= 1
        return True

    def release(self, n=1):
        self._value += n
        s = _CURRENT
        if s is not None and s.by_ident.get(get_ident()) is not None:
            s.wake(self)
            s.yield_point("sem.release")

    def __enter__(self):
        self.acquire()
        return True

    def __exit__(self, *a):
        self.release()


class SimCondition(object):
    """threading.Condition stand-in over a SimRLock (or the lock given)."""

    def __init__(self, lock=None):
        self._lock = lock if lock is not None else SimRLock()
        self.acquire = self._lock.acquire
        self.release = self._lock.release
        self._waiters = []

    def __enter__(self):
        return self._lock.__enter__()

    def __exit__(self, *a):
        return self._lock.__exit__(*a)

    def _at_fork_reinit(self):
        self._lock._at_fork_reinit()
        del self._waiters[:]

    def _release_all(self):
        """Give the lock up completely (whatever its recursion depth); returns how to restore it."""
        lk = self._lock
        if isinstance(lk, SimRLock):
            if lk._owner is None:
                raise RuntimeError("cannot wait on un-acquired lock")
            n = lk._count
            lk._count = 0
            lk._owner = None
            s = _CURRENT
            if s is not None:
                s.wake(lk)
            return n
        lk.release()
        return 1

    def wait(self, timeout=None):
        s = _CURRENT
        a = s.by_ident.get(get_ident()) if s is not None else None
        if a is None:
            raise HarnessError("SimCondition.wait outside a run")
        token = object()
        self._waiters.append(token)
        n = self._release_all()
        got = True
        while token in self._waiters:
            if timeout is not None:
                if not s._runnable(exclude=a) or s.stream.chance(0.3, "cond-timeout-expires"):
                    self._waiters.remove(token)
                    got = False
                    break
                s.force_yield("cond.wait.timed")
                continue
            s.block_on(self)
        self._lock.acquire()
        if isinstance(self._lock, SimRLock):
            self._lock._count = n
        return got

    def wait_for(self, predicate, timeout=None):
        r = predicate()
        while not r:
            if not self.wait(timeout) and timeout is not None:
                return predicate()
            r = predicate()
        return r

    def notify(self, n=1):
        del self._waiters[:n]
        s = _CURRENT
        if s is not None:
            s.wake(self)

    def notify_all(self):
        self.notify(len(self._waiters))

    notifyAll = notify_all


class SimQueue(object):
    """queue.SimpleQueue / queue.Queue stand-in (unbounded FIFO)."""

    def __init__(self, maxsize=0):
        self._items = []
        self.put_log = []   # everything ever put, in put order (oracle use)
        self.put_stamps = []
        self._unfinished = 0
        self._join_token = object()

    def task_done(self):
        # queue.Queue's bookkeeping for join()
        if self._unfinished <= 0:
            raise ValueError("task_done() called too many times")
        self._unfinished -= 1
        if self._unfinished == 0:
            s = _CURRENT
            if s is not None and s.by_ident.get(get_ident()) is not None:
                s.wake(self._join_token)
                s.yield_point("queue.task_done")

    def join(self):
        s = _CURRENT
        a = s.by_ident.get(get_ident()) if s is not None else None
        if a is None:
            if self._unfinished:
                raise HarnessError("SimQueue.join would block outside a run")
            return
        s.yield_point("queue.join")
        while self._unfinished > 0:
            s.block_on(self._join_token)

    def put(self, item, block=True, timeout=None):
        s = _CURRENT
        a = s.by_ident.get(get_ident()) if s is not None else None
        if a is not None:
            s.yield_point("queue.put")
        self._items.append(item)
        self._unfinished += 1
        self.put_log.append(item)
        self.put_stamps.append(s.stamp() if a is not None else 0)
        if a is not None:
            s.wake(self)
            s.yield_point("queue.put.done")

    put_nowait = put

    def get(self, block=True, timeout=None):
        s = _CURRENT
        a = s.by_ident.get(get_ident()) if s is not None else None
        if a is None:
            if not self._items:
                raise HarnessError("SimQueue.get would block outside a run")
            return self._items.pop(0)
        s.yield_point("queue.get")
        while not self._items:
            if not block:
                import queue
                raise queue.Empty()
            if timeout is not None:
                # a timed get on an empty queue: whether the timeout expires before somebody puts is the
                # scheduler's decision (when nobody else can run it expires for sure)
                if not s._runnable(exclude=a) or s.stream.chance(0.3, "get-timeout-expires"):
                    import queue
                    s.probe("timed_get_expired")
                    s.yield_point("queue.get.timeout")
                    raise queue.Empty()
                s.force_yield("queue.get.wait")
                continue
            s.block_on(self)
        item = self._items.pop(0)
        return item

    def get_nowait(self):
        return self.get(block=False)

    def empty(self):
        return not self._items

    def qsize(self):
        return len(self._items)

    def __repr__(self):
        return "<SimQueue n=%d>" % len(self._items)


class SimThread(object):
    """threading.Thread stand-in: inside a run the thread is a sim actor."""

    _counter = 0

    def __init__(self, group=None, target=None, name=None, args=(), kwargs=None,
                 daemon=None):
        self._target = target
        self._args = args
        self._kwargs = kwargs or {}
        SimThread._counter += 1
        self.name = name or "simthread"
        self.daemon = daemon
        self._actor = None
        self._real = None

    def run(self):
        if self._target is not None:
            self._target(*self._args, **self._kwargs)

    def start(self):
        s = _CURRENT
        a = s.by_ident.get(get_ident()) if s is not None else None
        if a is None:
            self._real = _real_Thread(target=self.run, name=self.name, daemon=self.daemon)
            self._real.start()
            return
        n = sum(1 for b in s.actors if b.name.startswith(self.name))
        self._actor = s.spawn("%s#%d" % (self.name, n), self.run)
        self._actor.data["simthread"] = self
        s.yield_point("thread.start")

    def join(self, timeout=None):
        if self._real is not None:
            return self._real.join(timeout)
        if self._actor is None:
            raise RuntimeError("cannot join thread before it is started")
        s = _CURRENT
        if s is None or s.by_ident.get(get_ident()) is None:
            raise HarnessError("joining a sim thread from outside the run")
        s.yield_point("thread.join")
        if timeout is not None and self._actor.state != DONE:
            # a timed join: whatever the thread is waiting for may be arbitrarily slow, so the timeout
            # may expire first -- the scheduler decides
            if s.stream.chance(0.5, "join-timeout-expires"):
                s.probe("timed_join_expired")
                return
        s.join(self._actor)

    def is_alive(self):
        if self._real is not None:
            return self._real.is_alive()
        return self._actor is not None and self._actor.state != DONE

    @property
    def ident(self):
        if self._real is not None:
            return self._real.ident
        return self._actor.ident if self._actor else None
