"""Decision streams.

Every nondeterministic choice of a run goes through ``Stream.choose``.  A run
owns a few *named* streams (``prog`` = what program is generated, ``sched`` =
who runs next, ``fault`` = which fault fires, ...) so that shrinking one
aspect does not shift the indices of another.

Search mode: answers are drawn from ``random.Random(seed/name)``.
Replay mode: answers are read from a sparse ``{index: value}`` map; a missing
index answers 0.  **0 is always the benign answer** (no switch, no fault,
stop generating, first alternative), so deleting entries from the map can only
make the execution simpler.

Nothing in here reads a clock or touches global ``random`` state.
"""

import hashlib
import random


def derive_seed(*parts):
    h = hashlib.blake2b("/".join(str(p) for p in parts).encode(), digest_size=8)
    return int.from_bytes(h.digest(), "big")


class Stream(object):
    __slots__ = ("name", "rng", "replay", "i", "rec")

    def __init__(self, name, seed=None, replay=None):
        self.name = name
        self.replay = replay
        self.rng = None if replay is not None else random.Random(
            derive_seed(seed, name))
        self.i = 0
        self.rec = {}

    def choose(self, n, tag=None):
        """Return an int in ``range(n)``; 0 is the benign answer."""
        i = self.i
        self.i = i + 1
        if n <= 1:
            return 0
        if self.replay is not None:
            v = self.replay.get(i, 0)
            if v >= n:
                v = n - 1
        else:
            v = self.rng.randrange(n)
        if v:
            self.rec[i] = v
        return v

    def chance(self, p, tag=None):
        """True with probability ``p`` (search) / iff recorded (replay)."""
        i = self.i
        self.i = i + 1
        if self.replay is not None:
            v = 1 if self.replay.get(i, 0) else 0
        else:
            v = 1 if (p > 0 and self.rng.random() < p) else 0
        if v:
            self.rec[i] = 1
        return bool(v)

    def weighted(self, weights, tag=None):
        """Index drawn with the given integer weights; index 0 is benign.

        In replay mode the recorded value is the index itself.
        """
        i = self.i
        self.i = i + 1
        n = len(weights)
        if self.replay is not None:
            v = self.replay.get(i, 0)
            if v >= n:
                v = n - 1
            # never answer an alternative whose weight is 0 in this config
            if weights[v] <= 0:
                v = next((k for k, w in enumerate(weights) if w > 0), 0)
        else:
            total = sum(weights)
            if total <= 0:
                v = 0
            else:
                r = self.rng.randrange(total)
                v = 0
                for k, w in enumerate(weights):
                    if r < w:
                        v = k
                        break
                    r -= w
        if v:
            self.rec[i] = v
        return v

    def pick(self, seq, tag=None):
        return seq[self.choose(len(seq), tag)]


class Decisions(object):
    """The set of named streams of one run."""

    def __init__(self, seed=None, replay=None):
        # replay: {name: {index(str|int): value}}
        self.seed = seed
        self._replay = None
        if replay is not None:
            self._replay = {
                name: {int(k): int(v) for k, v in m.items()}
                for name, m in replay.items()
            }
        self.streams = {}

    def stream(self, name):
        s = self.streams.get(name)
        if s is None:
            if self._replay is not None:
                s = Stream(name, replay=self._replay.get(name, {}))
            else:
                s = Stream(name, seed=self.seed)
            self.streams[name] = s
        return s

    def recorded(self):
        """Sparse record of every non-benign answer, JSON-able."""
        return {
            name: {str(k): v for k, v in sorted(s.rec.items())}
            for name, s in sorted(self.streams.items())
            if s.rec
        }

    def lengths(self):
        return {name: s.i for name, s in sorted(self.streams.items())}
