"""One simulated run: context object, taps and faulty destinations, worlds."""

import asyncio
import copy

from . import aloop, sched as _sched, seams
from .dec import Decisions
from .driver import (Interp, Model, Env, Violation, Unwind, drive_sync, adrive,
                     class_path, exc_text, EXC_CLASSES, ExtractMe)
from .sched import Sched, SimAbort, HarnessError


def fmt_sig(prop, kind, attrs):
    if attrs:
        return "%s.%s{%s}" % (prop, kind, ",".join("%s=%s" % (k, attrs[k]) for k in sorted(attrs)))
    return "%s.%s" % (prop, kind)


class Rec(object):
    """One message offered to a tap."""
    __slots__ = ("seq", "actor", "call", "msg", "raised")

    def __init__(self, seq, actor, call, msg):
        self.seq = seq
        self.actor = actor
        self.call = call      # (call_id, label) of the API call in progress on the offering thread
        self.msg = msg
        self.raised = None


def safe_copy(m):
    try:
        return copy.deepcopy(m)
    except BaseException:  # noqa
        try:
            return dict(m)
        except BaseException:  # noqa
            return m


class RunCtx(object):
    def __init__(self, prop, seed, dec, cfg):
        self.prop = prop
        self.seed = seed
        self.dec = dec
        self.cfg = cfg
        self.eliot = seams.eliot
        self.model = Model()
        self.sched = None
        self.clock = None
        self.violation = None       # first violation: dict(sig, detail)
        self.noactor = {}
        self.check_context = cfg.get("check_context", True)
        self.faulty_values = bool(cfg.get("p_bad") or cfg.get("p_ser_raise") or cfg.get("p_omit"))
        self.ctx_checks = 0
        self.api_calls = 0
        self.custom_ops = {}
        self.task_ids = []
        self.escaped = []           # (actor, exception) that reached an actor's top level
        self.pauses = 0
        self.faults = {}            # fault kind -> times it actually fired
        self.probes = {}
        self.returns = []           # (seq, call_id, label) of API calls that returned
        self.extractors = {}        # class -> fn (what the run registered)
        self.extractor_raises = set()
        self.extractor_flaky = set()
        self.async_mode = False
        self.aborted = False
        self.skipped = None
        self.live_gens = []         # plain generators the program left suspended (closed at run end)
        self.late_actors = []       # fire-and-forget remote sides, joined at the very end
        self.orphans = {}           # nid -> [node, Action, taken]: created in one place, entered in another
        self.trace = []             # cheap event log for the digest
        self.info = {}

    # ------------------------------------------------------------- reporting
    def fail(self, _kind, _detail="", **attrs):
        if self.violation is None:
            self.violation = {"sig": fmt_sig(self.prop, _kind, attrs), "detail": _detail[:2000]}
        if self.sched is not None and self.sched.abort is None:
            self.sched.abort = "violation"

    def fail_v(self, v):
        """A Violation raised by an oracle: its ``sig`` is the kind."""
        kind, attrs = v.sig, {}
        if isinstance(kind, tuple):
            kind, attrs = kind
        self.fail(kind, v.detail, **attrs)

    def count_fault(self, kind, n=1):
        self.faults[kind] = self.faults.get(kind, 0) + n

    def probe(self, name, n=1):
        self.probes[name] = self.probes.get(name, 0) + n

    def stamp(self):
        return self.sched.stamp()

    def on_return(self, cid, label):
        self.returns.append((self.sched.stamp() if self.sched else 0, cid, label))

    def actor_name(self):
        if self.async_mode:
            t = asyncio.current_task()
            if t is not None:
                return t.get_name()
        a = _sched.current_actor()
        return a.name if a is not None else "?"

    def current_call(self):
        a = _sched.current_actor()
        slot = a.data if a is not None else self.noactor
        return slot.get("call")

    # ----------------------------------------------------------- extractors
    def register_extractor(self, cls, fn, raises=False):
        self.extractors[cls] = fn
        self.extractor_flaky.discard(cls)
        if raises:
            self.extractor_raises.add(cls)
        else:
            self.extractor_raises.discard(cls)
        self.eliot.register_exception_extractor(cls, fn)

    def setup_extractors(self, specs):
        """specs: [[class_name, mode]] with mode fields | raise."""
        from .driver import ExtractorBoom
        for cname, mode in specs:
            cls = EXC_CLASSES[cname]
            if mode == "fields":
                def fn(e, cname=cname):
                    sc = self.sched
                    if sc is not None and sc.p_switch and _sched.current_actor() is not None:
                        sc.yield_point("in-extractor")      # a slow extractor: other threads fail meanwhile
                    return {"xcls": cname, "xlen": len(exc_text(e))}
                self.register_extractor(cls, fn)
            elif mode == "collide":
                def fn(e, cname=cname):
                    return {"xcls": cname, "reason": "the extractor's own reason", "exception": "not.the.Class",
                            "action_status": "succeeded"}
                self.register_extractor(cls, fn)
            elif mode == "flaky":
                # an extractor that fails for some exceptions of its class and works for others (it reads an
                # attribute only some instances have): decided by the exception's text, so the model knows
                def fn(e, cname=cname):
                    if flaky_raises(e):
                        self.count_fault("extr_raise_flaky")
                        raise ExtractorBoom("extractor for %s failed" % cname)
                    return {"xcls": cname, "xlen": len(exc_text(e))}
                self.register_extractor(cls, fn)
                self.extractor_flaky.add(cls)
            elif mode == "cross":
                # fails with an exception of a class that ANOTHER failing extractor is registered for (a ring):
                # reporting one extractor's failure must not consult the extractors again
                ring = [c for c, m in specs if m == "cross"]
                other = EXC_CLASSES[ring[(ring.index(cname) + 1) % len(ring)]]

                def fn(e, cname=cname, other=other):
                    self.count_fault("extr_raise_cross")
                    try:
                        raise other("extractor for %s failed with somebody else's class" % cname)
                    except TypeError:
                        raise ExtractorBoom("extractor for %s failed" % cname)
                self.register_extractor(cls, fn, raises=True)
            else:
                def fn(e, cname=cname):
                    sc = self.sched
                    if sc is not None and sc.p_switch and _sched.current_actor() is not None:
                        sc.yield_point("in-extractor")      # a slow extractor that fails in the end
                    raise ExtractorBoom("extractor for %s failed" % cname)
                self.register_extractor(cls, fn, raises=True)

    def nearest_extractor(self, ex):
        for klass in type(ex).__mro__:
            if klass in self.extractors:
                return klass
            if klass is EnvironmentError:
                return klass
        return None

    def extractor_failure(self, ex):
        """The exception the nearest extractor raises for ``ex``, or None."""
        from .driver import ExtractorBoom
        k = self.nearest_extractor(ex)
        if k is not None and k in self.extractor_flaky and k in self.extractors:
            if flaky_raises(ex):
                name = [n for n, c in EXC_CLASSES.items() if c is k][0]
                return ExtractorBoom("extractor for %s failed" % name)
            return None
        if k is not None and k in self.extractor_raises:
            name = [n for n, c in EXC_CLASSES.items() if c is k][0]
            return ExtractorBoom("extractor for %s failed" % name)
        return None

    def expected_extractor_fields(self, ex):
        """Fields of the extractor registered for the nearest class in the MRO
        (eliot registers one for EnvironmentError itself)."""
        for klass in type(ex).__mro__:
            if klass in self.extractors:
                if klass in self.extractor_raises or (klass in self.extractor_flaky and flaky_raises(ex)):
                    return {}
                try:
                    return dict(self.extractors[klass](ex))
                except BaseException:  # noqa
                    return {}
            if klass is EnvironmentError:
                return {"errno": ex.errno}
        return {}


def flaky_raises(ex):
    try:
        return sum(ord(c) for c in exc_text(ex)) % 2 == 1
    except BaseException:  # noqa
        return False


# -------------------------------------------------------------- destinations
class Tap(object):
    """Healthy destination owned by the harness: deep-copies what it is
    offered and stamps it with the global event sequence number."""

    def __init__(self, rc, name="tap", deep=True):
        self.rc = rc
        self.name = name
        self.deep = deep
        self.records = []

    def __call__(self, message):
        rc = self.rc
        s = rc.sched
        if s is not None:
            s.yield_point("dest")
        r = Rec(rc.stamp(), rc.actor_name(), rc.current_call(),
                safe_copy(message) if self.deep else dict(message))
        self.records.append(r)
        report_guard(rc, message)

    def __repr__(self):
        return "<Tap %s>" % self.name


def report_guard(rc, message):
    """A failure report about a failure report means the recursion guard of
    Destinations.send is gone: message sizes then double per level and the
    call never returns.  C07/C08 flag it; other properties cannot be decided
    on such a run (it is aborted and counted as skipped)."""
    try:
        if message.get("message_type") != "eliot:destination_failure":
            return
        inner = message.get("message")
        if not (isinstance(inner, str) and "eliot:destination_failure" in inner):
            return
    except BaseException:  # noqa
        return
    if rc.cfg.get("recursion_guard", "skip") == "violation":
        rc.fail("report_about_report", "a destination failure while delivering a failure report was itself reported")
    else:
        rc.skipped = "report recursion"
        if rc.sched is not None and rc.sched.abort is None:
            rc.sched.abort = "skipped"
    raise SimAbort("report recursion")


class DestBoom(Exception):
    pass


class DestBoomStr(Exception):
    def __str__(self):
        raise ValueError("no str")


class DestBoomNoModule(Exception):
    """An exception class whose __module__ is None ("None if unavailable")."""


DestBoomNoModule.__module__ = None


class DestBoomUnhashable(Exception):
    """An exception that defines __eq__ and is therefore unhashable (e.g. a dataclass exception)."""

    def __eq__(self, other):
        return isinstance(other, DestBoomUnhashable) and self.args == other.args

    __hash__ = None


class FaultyDest(object):
    """Destination that raises on a mask of its calls.

    mask kinds: ("bernoulli", p) | ("first", k) | ("every", k) | ("always",)
                | ("reports",) | ("nonreports",) | ("never",)
    Every offer (raising or not) is recorded.
    """

    def __init__(self, rc, name, mask, exc_kind=0):
        self.rc = rc
        self.name = name
        self.mask = mask
        self.exc_kind = exc_kind
        self.records = []
        self.calls = 0
        self.fault = rc.dec.stream("fault")

    def _should_raise(self, message):
        m = self.mask
        k = m[0]
        if k == "never":
            return False
        if k == "always":
            return True
        if k == "first":
            return self.calls <= m[1]
        if k == "every":
            return self.calls % m[1] == 0
        is_report = isinstance(message, dict) and message.get("message_type") == "eliot:destination_failure"
        if k == "reports":
            return is_report
        if k == "nonreports":
            return not is_report
        if k == "bernoulli":
            return self.fault.chance(m[1], "dest_raise")
        raise HarnessError("bad mask %r" % (m,))

    def __call__(self, message):
        rc = self.rc
        s = rc.sched
        if s is not None:
            s.yield_point("dest")
        self.calls += 1
        r = Rec(rc.stamp(), rc.actor_name(), rc.current_call(), safe_copy(message))
        self.records.append(r)
        report_guard(rc, message)
        if self._should_raise(message):
            rc.count_fault("dest_raise")
            ek = self.exc_kind
            if ek == 0:
                e = DestBoom("boom %s #%d" % (self.name, self.calls))
            elif ek == 1:
                e = OSError(28, "disk full %s" % self.name)
            elif ek == 2:
                e = DestBoomStr()
            elif ek == 4:
                e = DestBoomNoModule("no module %s" % self.name)
            elif ek == 5:
                e = DestBoomUnhashable("unhashable %s #%d" % (self.name, self.calls))
            else:
                e = KeyError("k%d" % self.calls)
            r.raised = e
            raise e

    def __repr__(self):
        return "<FaultyDest %s %r>" % (self.name, self.mask)


# -------------------------------------------------------------------- worlds
def run_program(rc, prog, setup=None, teardown=None):
    """Execute ``prog`` in its world.  Returns the Interp."""
    cfg = rc.cfg
    world = prog["world"]
    sstream = rc.dec.stream(cfg.get("sched_stream", "sched"))
    rc.sched_stream = sstream
    sched = Sched(sstream,
                  p_switch=cfg.get("p_switch", 0.0) if world == "threads" else 0.0,
                  gran=cfg.get("gran", "op"),
                  max_steps=cfg.get("max_steps", 200000),
                  call_budget=cfg.get("call_budget"),
                  traced=cfg.get("traced"))
    rc.sched = sched
    rc.clock = seams.begin_run(rc.seed, seams.SimClock(
        rc.dec.stream("clock"), p_jump=cfg.get("p_clock_jump", 0.0)))
    interp = Interp(rc)
    rc.interp = interp
    interp.define_types(prog.get("types", {}))

    def main():
        if setup is not None:
            setup(rc, interp)
        actors = prog["actors"]
        if world == "async":
            rc.async_mode = True
            interp.async_mode = True

            async def amain(loop):
                interp.loop = loop
                tasks = []
                for i, ops in enumerate(actors):
                    name = "a%d" % i
                    tasks.append(loop.create_task(
                        adrive(interp, interp.actor_body(ops, Env(), name), name), name=name))
                await asyncio.wait(tasks)
                for t in tasks:
                    if not t.cancelled() and t.exception() is not None:
                        raise t.exception()

            try:
                res, loop = aloop.run(amain)
                rc.info["loop_iterations"] = loop.iterations
                rc.info["virtual_time"] = loop.time()
            except Unwind:
                pass
            finally:
                rc.async_mode = False
        else:
            spawned = []
            for i, ops in enumerate(actors[1:], 1):
                name = "a%d" % i
                spawned.append(sched.spawn(
                    name, (lambda ops=ops, name=name: interp.actor_main(ops, Env(), name))))
            interp.actor_main(actors[0], Env(), "a0")
            for a in spawned:
                sched.yield_point("join")
                sched.join(a)
            # an action that never ended (its actor was unwound) must not strand a late remote side
            joined = 0
            while True:
                for n in rc.model.all_actions():
                    for gate in n.late_gates:
                        gate.open()
                if joined >= len(rc.late_actors):
                    break
                a = rc.late_actors[joined]
                joined += 1
                sched.yield_point("join")
                sched.join(a)
        if teardown is not None:
            teardown(rc, interp)

    try:
        try:
            sched.run_main(main, name="a0")
        except SimAbort:
            pass
        except Unwind:
            pass
        if sched.deadlock and sched.abort in (None, "deadlock"):
            rc.fail("deadlock", "deadlock: %r" % (sched.deadlock,))
        elif sched.abort == "step budget":
            rc.fail("no_termination", "run exceeded its step budget")
        elif sched.abort == "call budget":
            info = sched.abort_info
            label = info[1] if info else None
            rc.fail("no_return", "API call %r did not return within its step budget of %s line events" % (
                label, sched.call_budget), api=label[0] if isinstance(label, tuple) else str(label))
    finally:
        if rc.violation is not None or sched.abort is not None:
            # an aborted run leaves suspended generators / context managers behind; finalise them now,
            # inside this run, not at some garbage collection during a later one
            for g in rc.live_gens:
                try:
                    g.close()
                except BaseException:  # noqa
                    pass
            import gc
            gc.collect()
        seams.end_run()
    return interp


def read_child(r, pid, deadline_s=20.0):
    """Everything a forked child writes to the pipe, until it closes it -- or until the deadline: a child that
    hangs is killed (SIGKILL) and the fact is returned, so that no check ever waits for a child for ever.
    Returns (data, status, hung)."""
    import os
    import select
    import signal
    import time
    buf = b""
    end = time.monotonic() + deadline_s
    hung = False
    while True:
        left = end - time.monotonic()
        if left <= 0:
            hung = True
            break
        ready, _w, _x = select.select([r], [], [], min(left, 1.0))
        if not ready:
            continue
        chunk = os.read(r, 65536)
        if not chunk:
            break
        buf += chunk
    os.close(r)
    if hung:
        try:
            os.kill(pid, signal.SIGKILL)
        except OSError:
            pass
    _pid, status = os.waitpid(pid, 0)
    return buf, status, hung
