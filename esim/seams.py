"""Install the simulator's seams into the eliot modules of ELIOT_SRC.

No hook in /repo is needed: every seam is a module global (``Lock``,
``threading``, ``SimpleQueue``, ``time``, ``uuid4``) that is re-bound *by
identity scan*, so a change of import style in /repo does not silently remove
a seam.  A seam that cannot be found is a harness error, never a pass.
"""

import os
import queue as _queue
import random
import sys
import threading as _threading
import time as _time
import types
import uuid as _uuid
import warnings

from . import sched as _sched
from .sched import HarnessError

ELIOT_SRC = os.environ.get("ELIOT_SRC", "/repo")

_real_time = _time.time
_real_uuid4 = _uuid.uuid4


# ------------------------------------------------------------------ sim clock
class SimClock(object):
    """+1 us per reading, plus drawn jumps forwards and backwards."""

    def __init__(self, fault_stream=None, p_jump=0.0, start=1.7e9):
        self.now = start
        self.fault = fault_stream
        self.p_jump = p_jump
        self.jumps = 0
        self.reads = 0
        self.covered = 0.0      # simulated time passed over, forwards or backwards

    def time(self):
        self.reads += 1
        self.now += 1e-6
        self.covered += 1e-6
        if self.p_jump and self.fault is not None and self.fault.chance(self.p_jump, "clock_jump"):
            k = self.fault.choose(12, "jump-size")
            delta = (10.0 ** (k - 5))          # 1e-5 s .. 1e6 s
            if self.fault.choose(2, "jump-back"):
                delta = -delta
            new = self.now + delta
            if 4e7 < new < 2.0e11:
                self.now = new
                self.covered += abs(delta)
                self.jumps += 1
        return self.now


_CLOCK = None      # active SimClock or None
_UUID_RNG = None   # active random.Random or None


def sim_time():
    c = _CLOCK
    if c is None:
        return _real_time()
    return c.time()


def sim_uuid4():
    r = _UUID_RNG
    if r is None:
        return _real_uuid4()
    return _uuid.UUID(int=r.getrandbits(128), version=4)


class _ModuleProxy(types.ModuleType):
    """A stand-in for a stdlib module inside eliot's namespace: a few names
    overridden, everything else delegated."""

    def __init__(self, real, overrides):
        types.ModuleType.__init__(self, real.__name__)
        self.__dict__["_real"] = real
        self.__dict__["_overrides"] = overrides
        self.__dict__.update(overrides)

    def __getattr__(self, name):
        return getattr(self.__dict__["_real"], name)


_threading_proxy = _ModuleProxy(_threading, {
    "Lock": _sched.SimLock, "RLock": _sched.SimRLock, "Thread": _sched.SimThread,
    "Event": _sched.SimEvent, "Semaphore": _sched.SimSemaphore, "BoundedSemaphore": _sched.SimSemaphore,
    "Condition": _sched.SimCondition})
_queue_proxy = _ModuleProxy(_queue, {
    "SimpleQueue": _sched.SimQueue, "Queue": _sched.SimQueue})
_time_proxy = _ModuleProxy(_time, {"time": sim_time})
_uuid_proxy = _ModuleProxy(_uuid, {"uuid4": sim_uuid4})

_REBIND = [
    (_threading, _threading_proxy, "threading"),
    (_queue, _queue_proxy, "queue"),
    (_time, _time_proxy, "time"),
    (_uuid, _uuid_proxy, "uuid"),
    (_threading.Lock, _sched.SimLock, "Lock"),
    (_threading.RLock, _sched.SimRLock, "RLock"),
    (_threading.Thread, _sched.SimThread, "Thread"),
    (_threading.Event, _sched.SimEvent, "Event"),
    (_threading.Semaphore, _sched.SimSemaphore, "Semaphore"),
    (_threading.BoundedSemaphore, _sched.SimSemaphore, "BoundedSemaphore"),
    (_threading.Condition, _sched.SimCondition, "Condition"),
    (_queue.SimpleQueue, _sched.SimQueue, "SimpleQueue"),
    (_queue.Queue, _sched.SimQueue, "Queue"),
    (_time.time, sim_time, "time.time"),
    (_uuid.uuid4, sim_uuid4, "uuid4"),
]

eliot = None
_installed = {}
_ORIG = {}


def _rebind_namespace(ns, where, found):
    for name, val in list(ns.items()):
        for real, sim, label in _REBIND:
            if val is real:
                try:
                    ns[name] = sim
                except TypeError:
                    continue
                found.setdefault(label, []).append("%s.%s" % (where, name))


def import_eliot():
    """Import eliot from ELIOT_SRC (asserted) and remember pristine globals."""
    global eliot
    if eliot is not None:
        return eliot
    src = os.path.abspath(ELIOT_SRC)
    if src not in sys.path[:1]:
        sys.path.insert(0, src)
    warnings.simplefilter("ignore")
    import eliot as _e
    if not os.path.abspath(_e.__file__).startswith(src + os.sep):
        raise HarnessError("eliot imported from %s, expected %s" % (_e.__file__, src))
    import eliot.parse, eliot.testing, eliot.prettyprint, eliot.filter  # noqa
    import eliot._generators  # noqa
    eliot = _e
    return _e


def install(extra_modules=()):
    """Re-bind the seams in every loaded eliot.* module (idempotent)."""
    e = import_eliot()
    found = {}
    for modname, mod in sorted(sys.modules.items()):
        if mod is None or not (modname == "eliot" or modname.startswith("eliot.")):
            continue
        if ".tests" in modname or modname in _installed:
            continue
        _installed[modname] = True
        _rebind_namespace(mod.__dict__, modname, found)
        for cname, cls in list(mod.__dict__.items()):
            if isinstance(cls, type) and cls.__module__ == modname:
                for aname, aval in list(vars(cls).items()):
                    for real, sim, label in _REBIND:
                        if aval is real:
                            setattr(cls, aname, staticmethod(sim) if callable(sim) and not isinstance(sim, type) else sim)
                            found.setdefault(label, []).append("%s.%s.%s" % (modname, cname, aname))
    _installed.setdefault("_found", {}).update(found)
    _replace_lock_instances(found)
    _scan_resettable()
    if "_orig" not in _ORIG:
        from eliot import _output, _errors
        _ORIG["_orig"] = True
        _ORIG["default_logger"] = _output._DEFAULT_LOGGER
        _ORIG["registry"] = dict(_errors._error_extraction.registry)
    return found


_REAL_LOCK_TYPES = (type(_threading.Lock()), type(_threading.RLock()))


def _replace_lock_instances(found):
    """Locks created while eliot was being imported (module-level or class-level `X = threading.Lock()`, or held
    by a module-level singleton) are real ones: a simulated thread that blocks on one blocks the whole
    simulation.  Replace every such instance that is free right now by its simulated counterpart."""
    def sim_for(v):
        if not isinstance(v, _REAL_LOCK_TYPES):
            return None
        try:
            if not v.acquire(False):
                return None
            v.release()
        except Exception:  # noqa
            return None
        return _sched.SimRLock() if isinstance(v, _REAL_LOCK_TYPES[1]) else _sched.SimLock()

    for modname, mod in sorted(sys.modules.items()):
        if mod is None or not (modname == "eliot" or modname.startswith("eliot.")) or ".tests" in modname:
            continue
        for name, val in list(vars(mod).items()):
            new = sim_for(val)
            if new is not None:
                setattr(mod, name, new)
                found.setdefault("lock-instance", []).append("%s.%s" % (modname, name))
                continue
            if isinstance(val, type) and getattr(val, "__module__", None) == modname:
                for an, av in list(vars(val).items()):
                    new = sim_for(av)
                    if new is not None:
                        setattr(val, an, new)
                        found.setdefault("lock-instance", []).append("%s.%s.%s" % (modname, name, an))
            elif hasattr(val, "__dict__") and not isinstance(val, (type, types.ModuleType, types.FunctionType)) \
                    and type(val).__module__.startswith("eliot"):
                for an, av in list(vars(val).items()):
                    new = sim_for(av)
                    if new is not None:
                        try:
                            setattr(val, an, new)
                            found.setdefault("lock-instance", []).append("%s.%s.%s" % (modname, name, an))
                        except Exception:  # noqa
                            pass


_CACHES = []        # objects with cache_clear() (functools caches) reachable from eliot's modules
_CONTAINERS = []    # module-level containers that were empty right after import (memo tables)
_RANDOMS = []       # module-level random.Random instances (a private id generator): re-seeded per run


def _scan_resettable():
    """State that a changed implementation may keep between calls (memoisation) must not leak from one
    simulated run into the next, or violations stop being reproducible.  Found generically: functools
    caches, and module-level dict/list/set globals that are empty after import."""
    del _CACHES[:]
    del _CONTAINERS[:]
    del _RANDOMS[:]
    seen = set()
    for modname, mod in sorted(sys.modules.items()):
        if mod is None or not (modname == "eliot" or modname.startswith("eliot.")) or ".tests" in modname:
            continue
        for name, val in list(vars(mod).items()):
            if id(val) in seen:
                continue
            if hasattr(val, "cache_clear") and callable(getattr(val, "cache_clear", None)):
                seen.add(id(val))
                _CACHES.append(val)
            elif isinstance(val, random.Random):
                seen.add(id(val))
                _RANDOMS.append(val)
            elif isinstance(val, (dict, list, set)) and not val and not name.startswith("__") \
                    and getattr(mod, "__all__", None) is not val:
                seen.add(id(val))
                _CONTAINERS.append(val)
            elif isinstance(val, type) and getattr(val, "__module__", None) == modname:
                for an, av in list(vars(val).items()):
                    f = getattr(av, "__func__", av)
                    if hasattr(f, "cache_clear") and id(f) not in seen:
                        seen.add(id(f))
                        _CACHES.append(f)
                    elif isinstance(av, (dict, list, set)) and not av and not an.startswith("__") \
                            and id(av) not in seen:
                        # class-level mutable state shared by all instances
                        seen.add(id(av))
                        _CONTAINERS.append(av)


def require_seams(*names):
    """Harness error unless each named seam was found somewhere in eliot."""
    found = _installed.get("_found", {})
    # a name may be given as alternatives "a|b": the function itself or the module it is reached through
    missing = [n for n in names if not any(x in found for x in n.split("|"))]
    if missing == ["uuid4|uuid"]:
        # a tree that makes its task ids some other way: a private random.Random is re-seeded per run
        # (begin_run); anything else leaves the ids uncontrolled -- they are not compared anywhere, but a
        # violation that depends on their order may then fail to replay (reported as such, never as a pass)
        _installed["_uuid_uncontrolled"] = not _RANDOMS
        return
    if missing:
        raise HarnessError("seam(s) not found in eliot: %s (found: %s)" % (
            missing, sorted(found)))


def begin_run(seed, clock=None):
    """Reset every piece of process-global eliot state; arm clock and uuids."""
    global _CLOCK, _UUID_RNG
    from eliot import _output, _errors
    from eliot._output import Logger
    # Never replace the Destinations instance: public names are bound methods
    # of it.  Re-initialise in place.
    Logger._destinations.__init__()
    Logger._destinations.__dict__.pop("send", None)      # a check's per-run wrapper (C11)
    _output._DEFAULT_LOGGER = _ORIG["default_logger"]
    # re-initialise the extractor registry in place (public names are bound methods of this
    # instance) and re-register the defaults through the public API, so that any derived state a
    # changed implementation keeps (caches) starts clean as well
    ee = _errors._error_extraction
    ee.__init__()
    for _cls, _fn in _ORIG["registry"].items():
        ee.register_exception_extractor(_cls, _fn)
    for c in _CACHES:
        try:
            c.cache_clear()
        except Exception:  # noqa
            pass
    for c in _CONTAINERS:
        try:
            c.clear()
        except Exception:  # noqa
            pass
    # a ContextVar needs no reset (every run has fresh contexts); a mutant that
    # keeps the context in a global does, or one run's leak poisons the next
    try:
        from eliot import _action
        _action._ACTION_CONTEXT.set(None)
    except Exception:  # noqa
        pass
    for i, r in enumerate(_RANDOMS):
        try:
            r.seed((seed ^ 0xE110) + i)
        except Exception:  # noqa
            pass
    _CLOCK = clock if clock is not None else SimClock()
    _UUID_RNG = random.Random(seed ^ 0x5EED)
    return _CLOCK


def reseed_after_fork(salt=1):
    """In a forked child of a run: what the real uuid4 (os.urandom) gives for free -- the child's ids are
    not the parent's.  The seeded generator of the uuid seam would otherwise be copied with the process.
    (Generators private to eliot are NOT touched: whether they survive a fork is eliot's business.)"""
    global _UUID_RNG
    if _UUID_RNG is not None:
        _UUID_RNG = random.Random(_UUID_RNG.getrandbits(64) ^ (0xF0F0 * salt))


def end_run():
    global _CLOCK, _UUID_RNG
    _CLOCK = None
    _UUID_RNG = None
    from eliot._output import Logger
    Logger._destinations.__init__()


def source_digest():
    """Digest of the eliot sources the run used (goes into replay files)."""
    import hashlib
    h = hashlib.blake2b(digest_size=8)
    base = os.path.join(os.path.abspath(ELIOT_SRC), "eliot")
    for fn in sorted(os.listdir(base)):
        if fn.endswith(".py"):
            with open(os.path.join(base, fn), "rb") as f:
                h.update(fn.encode())
                h.update(f.read())
    return h.hexdigest()
