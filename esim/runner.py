"""Batch runner: seeded search over many runs, shrinking, replay files,
known findings, evidence.

Exit codes of a check: 0 = every completed run satisfied the oracle (or only
listed known findings were seen); 1 + ``VIOLATION property=<id> replay=<path>``
= an unlisted violation; 2 (no VIOLATION line) = harness error.
"""

import faulthandler
import hashlib
import importlib
import json
import multiprocessing
import os
import signal
import subprocess
import sys
import threading
import time
import traceback
from concurrent.futures import ProcessPoolExecutor
from concurrent.futures.process import BrokenProcessPool

from . import seams
from .dec import Decisions, derive_seed
from .driver import Violation
from .sched import HarnessError

VERIF = os.path.dirname(os.path.dirname(os.path.abspath(__file__)))
# (tools that evaluate scratch trees point this elsewhere, so that concurrent evaluations do not clean up
# each other's replay files)
REPLAYS = os.environ.get("VERIF_REPLAY_DIR") or os.path.join(VERIF, "replays")
EVIDENCE = os.path.join(VERIF, "evidence")
KNOWN = os.path.join(VERIF, "known_findings.json")


def load_prop(pid):
    return importlib.import_module("props.%s" % pid.lower())


def run_seed(verif_seed, pid, idx):
    return derive_seed(verif_seed, pid, idx)


# ------------------------------------------------------------------ one run
def execute(mod, seed, replay=None):
    """Run once.  Returns a result dict (never raises)."""
    dec = Decisions(seed=seed, replay=replay)
    res = {"violation": None, "harness_error": None, "stats": {}, "sample": None}
    armed = _arm_wall_watchdog()
    try:
        out = mod.run_one(seed, dec)
        res.update(out)
    except WallTimeout:
        res["harness_error"] = "wall-clock watchdog: the run did not finish in %ds\n%s" % (
            RUN_WALL_S, traceback.format_exc()[-3000:])
    except Violation as v:
        kind, attrs = v.sig, {}
        if isinstance(kind, tuple):
            kind, attrs = kind
        from .run import fmt_sig
        res["violation"] = {"sig": fmt_sig(mod.ID, kind, attrs), "detail": v.detail[:2000]}
    except HarnessError:
        res["harness_error"] = traceback.format_exc()
    except BaseException:  # noqa
        res["harness_error"] = traceback.format_exc()
    finally:
        if armed:
            signal.setitimer(signal.ITIMER_REAL, 0)
    res["decisions"] = dec.recorded()
    res["lengths"] = dec.lengths()
    return res


RUN_WALL_S = int(os.environ.get("VERIF_RUN_WALL_S", "60"))


class WallTimeout(BaseException):
    pass


def _on_alarm(signum, frame):
    from . import sched as _s
    s = _s._CURRENT
    if s is not None and s.abort is None:
        s.abort = "wall budget"
    raise WallTimeout()


def _arm_wall_watchdog():
    if threading.current_thread() is not threading.main_thread():
        return False
    signal.signal(signal.SIGALRM, _on_alarm)
    signal.setitimer(signal.ITIMER_REAL, RUN_WALL_S)
    return True


def _digest(res):
    """Digest of everything observable about a run (determinism self-test)."""
    h = hashlib.blake2b(digest_size=8)
    h.update(json.dumps(res.get("decisions"), sort_keys=True).encode())
    h.update(json.dumps(res.get("lengths"), sort_keys=True).encode())
    h.update(json.dumps(res.get("violation"), sort_keys=True, default=str).encode())
    h.update(json.dumps(res.get("stats"), sort_keys=True, default=str).encode())
    h.update(str(res.get("trace_digest")).encode())
    return h.hexdigest()


# ------------------------------------------------------------------- chunks
def _init_worker():
    pass


def _work(args):
    pid, verif_seed, indices, want_digests = args
    faulthandler.dump_traceback_later(600, exit=True)
    mod = load_prop(pid)
    agg = {"n": 0, "violations": [], "harness_errors": [], "sums": {}, "sigs": set(),
           "samples": [], "digests": {}, "wall": 0.0, "nontrivial": 0}
    t0 = time.perf_counter()
    per_sig = {}
    for idx in indices:
        seed = run_seed(verif_seed, pid, idx)
        res = execute(mod, seed)
        agg["n"] += 1
        if res["harness_error"]:
            if len(agg["harness_errors"]) < 3:
                agg["harness_errors"].append((idx, res["harness_error"]))
            continue
        st = res.get("stats") or {}
        for k, v in st.items():
            if isinstance(v, (int, float)) and not isinstance(v, bool):
                agg["sums"][k] = agg["sums"].get(k, 0) + v
            elif isinstance(v, dict):
                d = agg["sums"].setdefault(k, {})
                for kk, vv in v.items():
                    d[kk] = d.get(kk, 0) + vv
        sig = res.get("distinct")
        if sig is not None and res.get("nontrivial", True):
            agg["sigs"].add(sig)
        if res.get("nontrivial", True):
            agg["nontrivial"] += 1
        if res["violation"]:
            s = res["violation"]["sig"]
            per_sig[s] = per_sig.get(s, 0) + 1
            if per_sig[s] <= 2:
                agg["violations"].append({
                    "idx": idx, "seed": seed, "sig": s, "detail": res["violation"]["detail"],
                    "decisions": res["decisions"], "size": sum(len(m) for m in res["decisions"].values()),
                    "sample": res.get("sample")})
        if res.get("sample") is not None and len(agg["samples"]) < 2 and (idx % 7 == 0 or not agg["samples"]):
            agg["samples"].append({"run_index": idx, "seed": seed, "case": res["sample"]})
        if want_digests:
            agg["digests"][idx] = _digest(res)
    agg["violation_counts"] = per_sig
    agg["wall"] = time.perf_counter() - t0
    faulthandler.cancel_dump_traceback_later()
    return agg


def merge(aggs):
    out = {"n": 0, "violations": [], "harness_errors": [], "sums": {}, "sigs": set(),
           "samples": [], "digests": {}, "violation_counts": {}, "cpu": 0.0, "nontrivial": 0}
    for a in aggs:
        out["n"] += a["n"]
        out["violations"].extend(a["violations"])
        out["harness_errors"].extend(a["harness_errors"])
        out["sigs"] |= a["sigs"]
        out["nontrivial"] += a["nontrivial"]
        out["cpu"] += a["wall"]
        out["digests"].update(a["digests"])
        if len(out["samples"]) < 4:
            out["samples"].extend(a["samples"][: 4 - len(out["samples"])])
        for k, v in a["violation_counts"].items():
            out["violation_counts"][k] = out["violation_counts"].get(k, 0) + v
        for k, v in a["sums"].items():
            if isinstance(v, dict):
                d = out["sums"].setdefault(k, {})
                for kk, vv in v.items():
                    d[kk] = d.get(kk, 0) + vv
            else:
                out["sums"][k] = out["sums"].get(k, 0) + v
    return out


def run_batch(pid, verif_seed, n_runs, workers, wall_cap, want_digests=False, start=0):
    """Run indices start..start+n_runs-1 over ``workers`` fork processes."""
    chunks = []
    per = max(1, min(500, n_runs // (workers * 4) or 1))
    i = start
    while i < start + n_runs:
        chunks.append(list(range(i, min(i + per, start + n_runs))))
        i += per
    t0 = time.perf_counter()
    aggs = []
    cut = False
    if workers <= 1:
        for c in chunks:
            aggs.append(_work((pid, verif_seed, c, want_digests)))
            if time.perf_counter() - t0 > wall_cap:
                cut = True
                break
    else:
        ctx = multiprocessing.get_context("fork")
        ex = ProcessPoolExecutor(max_workers=workers, mp_context=ctx)
        try:
            futs = [ex.submit(_work, (pid, verif_seed, c, want_digests)) for c in chunks]
            for f in futs:
                left = wall_cap - (time.perf_counter() - t0)
                if left <= 0:
                    cut = True
                    f.cancel()
                    continue
                try:
                    aggs.append(f.result(timeout=max(1.0, left)))
                except BrokenProcessPool:
                    raise HarnessError("a worker process died")
                except TimeoutError:
                    cut = True
                    f.cancel()
            if cut:
                for p in list(getattr(ex, "_processes", {}).values()):
                    try:
                        p.kill()
                    except Exception:  # noqa
                        pass
        finally:
            # never wait for workers that were cut off (or for a stray child of theirs holding a pipe open)
            ex.shutdown(wait=not cut, cancel_futures=True)
    m = merge(aggs)
    m["wall"] = time.perf_counter() - t0
    m["cut"] = cut
    m["planned"] = n_runs
    return m


# ------------------------------------------------------------------ shrinking
def _size(dec):
    return sum(len(m) for m in dec.values())


def _total(dec):
    return sum(sum(m.values()) for m in dec.values())


def shrink(mod, seed, decisions, sig, budget_s=60.0):
    """Delta-debug the decision record while the same signature persists.

    Returns (decisions, result)."""
    t_end = time.perf_counter() + budget_s
    tries = [0]

    def test(cand):
        tries[0] += 1
        r = execute(mod, seed, replay=cand)
        if r["violation"] and r["violation"]["sig"] == sig and not r["harness_error"]:
            return r
        return None

    best = decisions
    best_res = test(best)
    if best_res is None:
        return decisions, None
    best = best_res["decisions"]

    def better(r):
        nonlocal best, best_res
        cand = r["decisions"]
        if (_size(cand), _total(cand)) < (_size(best), _total(best)):
            best, best_res = cand, r
            return True
        return False

    improved = True
    while improved and time.perf_counter() < t_end:
        improved = False
        # 1. drop whole streams
        for name in list(best):
            if name not in best or time.perf_counter() > t_end:
                continue
            cand = {k: v for k, v in best.items() if k != name}
            r = test(cand)
            if r and better(r):
                improved = True
        # 2. ddmin over entries of each stream (deleting = answering 0)
        for name in list(best):
            if name not in best:
                continue
            keys = sorted(best[name], key=int)
            n = 2
            while keys and time.perf_counter() < t_end:
                chunk = max(1, len(keys) // n)
                removed_any = False
                i = 0
                while i < len(keys) and time.perf_counter() < t_end:
                    drop = set(keys[i:i + chunk])
                    cand = dict(best)
                    cand[name] = {k: v for k, v in best[name].items() if k not in drop}
                    r = test(cand)
                    if r and better(r):
                        improved = removed_any = True
                        if name not in best:
                            keys = []
                            break
                        keys = sorted(best[name], key=int)
                    else:
                        i += chunk
                if chunk == 1:
                    break
                if not removed_any:
                    n = min(len(keys), n * 2) if keys else n
                    if n <= 0:
                        break
        # 3. delete a choice and shift the rest down (program stream mostly)
        for name in ("prog", "cfg"):
            if name not in best:
                continue
            keys = sorted((int(k) for k in best[name]), reverse=True)
            for k in keys:
                if time.perf_counter() > t_end or name not in best:
                    break
                if str(k) not in best[name]:
                    continue
                cand = dict(best)
                m = {}
                for kk, vv in best[name].items():
                    ik = int(kk)
                    if ik == k:
                        continue
                    m[str(ik - 1 if ik > k else ik)] = vv
                cand[name] = m
                r = test(cand)
                if r and better(r):
                    improved = True
        # 4. lower values
        for name in list(best):
            if name not in best:
                continue
            for k in sorted(best[name], key=int):
                if time.perf_counter() > t_end or name not in best or k not in best[name]:
                    break
                v = best[name][k]
                for nv in (1, v // 2, v - 1):
                    if 0 < nv < v:
                        cand = dict(best)
                        cand[name] = dict(best[name])
                        cand[name][k] = nv
                        r = test(cand)
                        if r and better(r):
                            improved = True
                            break
    best_res["shrink_tries"] = tries[0]
    return best, best_res


# ---------------------------------------------------------------- known findings
def load_known():
    try:
        with open(KNOWN) as f:
            return json.load(f).get("findings", [])
    except FileNotFoundError:
        return []


def known_open(pid, sig):
    for k in load_known():
        if k.get("property") == pid and k.get("status") == "open" and k.get("signature") == sig:
            return k
    return None


# --------------------------------------------------------------------- replay
def write_replay(pid, verif_seed, v, decisions, res):
    os.makedirs(REPLAYS, exist_ok=True)
    path = os.path.join(REPLAYS, "%s-%s-%s.json" % (pid, verif_seed, v["idx"]))
    doc = {
        "property": pid,
        "verif_seed": verif_seed,
        "run_index": v["idx"],
        "run_seed": v["seed"],
        "signature": v["sig"],
        "detail": (res or {}).get("violation", {}).get("detail", v["detail"]) if res else v["detail"],
        "decisions": decisions,
        "original_decision_count": v["size"],
        "minimised_decision_count": _size(decisions),
        "case": (res or {}).get("sample", v.get("sample")),
        "eliot_source_digest": seams.source_digest(),
        "how_to_replay": "cd /verif && /venv/bin/python check.py --replay %s" % path,
    }
    with open(path, "w") as f:
        json.dump(doc, f, indent=1, default=str, sort_keys=True)
    return path


def replay_file(path, quiet=False):
    with open(path) as f:
        doc = json.load(f)
    pid = doc["property"]
    seams.import_eliot()
    mod = load_prop(pid)
    if hasattr(mod, "prepare"):
        mod.prepare()
    res = execute(mod, doc["run_seed"], replay=doc["decisions"])
    if res["harness_error"]:
        print("HARNESS-ERROR during replay:\n" + res["harness_error"])
        return 2
    v = res["violation"]
    if not quiet:
        print("replayed %s run_seed=%s" % (pid, doc["run_seed"]))
        print("expected signature: %s" % doc["signature"])
        print("observed signature: %s" % (v["sig"] if v else None))
        if v:
            print("detail: %s" % v["detail"])
        case = res.get("sample")
        if case is not None:
            print("case: %s" % json.dumps(case, default=str)[:3000])
    if v and v["sig"] == doc["signature"]:
        print("VIOLATION property=%s replay=%s" % (pid, path))
        return 1
    print("replay did not reproduce the recorded violation")
    return 0


def verify_replay_fresh(path):
    """Re-execute the replay file in a fresh interpreter; True iff it
    reproduces (exit status 1)."""
    env = dict(os.environ)
    env["PYTHONHASHSEED"] = "0"
    p = subprocess.run([sys.executable, os.path.join(VERIF, "check.py"), "--replay", path, "--quiet"],
                       capture_output=True, text=True, env=env, timeout=300)
    return p.returncode == 1, (p.stdout + p.stderr)[-2000:]


# -------------------------------------------------------------------- evidence
def write_evidence(pid, tier, verif_seed, mod, m, n_viol, extra=None):
    os.makedirs(EVIDENCE, exist_ok=True)
    sums = m["sums"]
    wall = m["wall"]
    cov = {
        "evaluations": m["n"],
        "distinct_nontrivial": len(m["sigs"]),
        "rule": getattr(mod, "RULE", ""),
        "samples": m["samples"] or [{"note": "no sample recorded"}],
        "planned_runs": m["planned"],
        "cut_off_by_wall_cap": m["cut"],
        "runs_per_hour": int(m["n"] / wall * 3600) if wall > 0 else 0,
        "cpu_seconds": round(m["cpu"], 2),
        "nontrivial_runs": m["nontrivial"],
        "totals": {k: v for k, v in sums.items() if not isinstance(v, dict)},
        "faults_fired": sums.get("faults", {}),
        "probes_hit": sums.get("probes", {}),
        "worlds": sums.get("worlds", {}),
        "violation_signatures": m["violation_counts"],
        "real_components": getattr(mod, "REAL", []),
        "stubbed_components": getattr(mod, "STUBS", []),
        "eliot_source_digest": seams.source_digest(),
        "eliot_src": seams.ELIOT_SRC,
    }
    if extra:
        cov.update(extra)
    doc = {
        "property_id": pid,
        "tier": tier,
        "seed": int(verif_seed),
        "level": getattr(mod, "LEVEL", "exploration"),
        "coverage": cov,
        "assumptions": getattr(mod, "ASSUMPTIONS", []),
        "wall_s": round(wall, 3),
        "violations": n_viol,
    }
    path = os.path.join(EVIDENCE, "%s.json" % pid)
    if os.path.abspath(seams.ELIOT_SRC) != "/repo":
        # a run against a scratch tree (mutant / seeded change) must not clobber the evidence of /repo
        os.makedirs("/tmp/esim-evidence", exist_ok=True)
        path = os.path.join("/tmp/esim-evidence", "%s.json" % pid)
    tmp = path + ".tmp"
    with open(tmp, "w") as f:
        json.dump(doc, f, indent=1, default=str, sort_keys=True)
    os.replace(tmp, path)
    return path


# ------------------------------------------------------------------- the check
def check(pid, tier, verif_seed, workers=None, runs=None):
    seams.import_eliot()
    mod = load_prop(pid)
    if hasattr(mod, "prepare"):
        mod.prepare()
    n_runs = runs or (mod.QUICK_RUNS if tier == "quick" else mod.THOROUGH_RUNS)
    workers = workers or min(16, os.cpu_count() or 1)
    wall_cap = float(os.environ.get("VERIF_WALL_CAP", 240 if tier == "quick" else 3000))
    print("check %s tier=%s VERIF_SEED=%s runs=%d workers=%d eliot=%s" % (
        pid, tier, verif_seed, n_runs, workers, seams.ELIOT_SRC))
    sys.stdout.flush()
    m = run_batch(pid, verif_seed, n_runs, workers, wall_cap)
    status = 0
    if m["harness_errors"]:
        idx, tb = m["harness_errors"][0]
        print("HARNESS-ERROR in run %s:\n%s" % (idx, tb))
        status = 2
    if m["n"] == 0:
        print("HARNESS-ERROR: no run completed")
        status = 2
    # group violations by signature, smallest first
    by_sig = {}
    for v in m["violations"]:
        by_sig.setdefault(v["sig"], []).append(v)
    unlisted = 0
    reported = []
    for sig in sorted(by_sig):
        vs = sorted(by_sig[sig], key=lambda v: (v["size"], v["idx"]))
        k = known_open(pid, sig)
        if k is not None:
            print("KNOWN-FINDING: property=%s %s [signature %s; seen in %d run(s), e.g. run %d]" % (
                pid, k.get("what", ""), sig, m["violation_counts"].get(sig, 0), vs[0]["idx"]))
            continue
        if len(reported) >= 3:
            unlisted += 1
            continue
        # a violation that depended on state left behind by earlier runs of its worker does not replay
        # on its own; take the smallest recorded run that does
        dec = res = v = None
        for cand in vs[:25]:
            r0 = execute(mod, cand["seed"], replay=cand["decisions"])
            if r0["violation"] and r0["violation"]["sig"] == sig and not r0["harness_error"]:
                v = cand
                break
        if v is None:
            print("HARNESS-ERROR: violation %s (e.g. run %d) did not reproduce in-process in %d recorded run(s)" % (
                sig, vs[0]["idx"], min(len(vs), 25)))
            status = 2
            continue
        dec, res = shrink(mod, v["seed"], v["decisions"], sig,
                          budget_s=float(os.environ.get("VERIF_SHRINK_S", 45)))
        if res is None:
            print("HARNESS-ERROR: violation %s of run %d did not reproduce in-process" % (sig, v["idx"]))
            status = 2
            continue
        path = write_replay(pid, verif_seed, v, dec, res)
        ok, out = verify_replay_fresh(path)
        if not ok:
            print("HARNESS-ERROR: replay file %s does not reproduce in a fresh interpreter:\n%s" % (path, out))
            status = 2
            continue
        unlisted += 1
        reported.append(path)
        print("violation %s (%d run(s)); minimised %d -> %d decisions in %d tries" % (
            sig, m["violation_counts"].get(sig, 0), v["size"], _size(dec), res.get("shrink_tries", 0)))
        print("  detail: %s" % res["violation"]["detail"][:1500])
        print("VIOLATION property=%s replay=%s" % (pid, path))
    write_evidence(pid, tier, verif_seed, mod, m, sum(m["violation_counts"].values()))
    print("%s: %d runs in %.1fs (%.0f runs/h), %d distinct non-trivial cases, violations: %s%s" % (
        pid, m["n"], m["wall"], m["n"] / m["wall"] * 3600 if m["wall"] else 0, len(m["sigs"]),
        m["violation_counts"] or "none", " [cut off by wall cap]" if m["cut"] else ""))
    if reported:
        # at least one violation reproduces from a clean state in a fresh interpreter: that is the verdict,
        # whatever else could not be reproduced or went wrong in the harness on the way (printed above)
        return 1
    if status == 2:
        return 2
    return 1 if unlisted else 0
