"""Seeded value generators (0 = simplest) and a type-strict canonical form."""

import math

FIELD_NAMES = ["a", "b", "c", "x", "y", "key", "value", "n", "items", "data",
               "k0", "k1", "k2", "path", "result_", "ключ", "with space", "emoji😀", "a.b", "A"]
IDENT_NAMES = ["a", "b", "c", "x", "y", "key", "value", "n", "items", "data", "k0", "k1", "k2"]

INTS = [0, 1, -1, 7, 2 ** 31, -(2 ** 31), 2 ** 53 - 1, 2 ** 53 + 1, 2 ** 63 - 1, -(2 ** 63),
        2 ** 64 - 1, 1234567890123]
FLOATS = [0.5, -0.0, 0.0, 1.0, 5e-324, 1.7976931348623157e308, 1 / 3, -2.5e-7, 1e21, 123456.789]
TEXTS = ["", "a", "hello", "\"\\/", "\x00\x01\x1f", "\x7f", "  ", "￿", "😀",
         "multi\nline\ttab", "x" * 300, "é", "日本語", "{\"not\": \"json\"}", "\\n", "a\r\nb",
         "\U0010ffff", " leading and trailing "]


def gen_text(st):
    k = st.choose(len(TEXTS) + 1, "text")
    if k < len(TEXTS):
        return TEXTS[k]
    n = st.choose(12, "textlen")
    alphabet = "ab\"\\\n é😀\x00 "
    return "".join(alphabet[st.choose(len(alphabet))] for _ in range(n))


def gen_json(st, depth=0, maxdepth=3, maxlen=4):
    """A JSON-native value: text, 64-bit ints, finite floats, bool, None,
    lists, string-keyed dicts."""
    w = [4, 4, 2, 1, 1, 2, 2] if depth < maxdepth else [4, 4, 2, 1, 1, 0, 0]
    k = st.weighted(w, "vkind")
    if k == 0:
        return INTS[st.choose(len(INTS), "int")]
    if k == 1:
        return gen_text(st)
    if k == 2:
        return FLOATS[st.choose(len(FLOATS), "float")]
    if k == 3:
        return bool(st.choose(2))
    if k == 4:
        return None
    if k == 5:
        out = []
        while len(out) < maxlen and st.chance(0.6, "more"):
            out.append(gen_json(st, depth + 1, maxdepth, maxlen))
        return out
    out = {}
    while len(out) < maxlen and st.chance(0.6, "more"):
        key = gen_text(st) if st.choose(3) == 2 else FIELD_NAMES[st.choose(len(FIELD_NAMES))]
        out[key] = gen_json(st, depth + 1, maxdepth, maxlen)
    return out


def gen_deep(st, depth):
    v = INTS[st.choose(len(INTS))]
    for i in range(depth):
        v = [v] if st.choose(2) == 0 else {"d": v}
    return v


def gen_fields(st, names=FIELD_NAMES, maxn=4, maxdepth=3, exclude=()):
    out = {}
    while len(out) < maxn and st.chance(0.55, "field?"):
        k = names[st.choose(len(names), "fname")]
        if k in exclude or k in out:
            continue
        out[k] = gen_json(st, 0, maxdepth)
    return out


def canon(v):
    """Type-strict, order-insensitive canonical form of a JSON value
    (True != 1, 1.0 != 1, -0.0 != 0.0)."""
    if v is None:
        return ("n",)
    if v is True or v is False:
        return ("b", v)
    if isinstance(v, int):
        return ("i", v)
    if isinstance(v, float):
        if v != v:
            return ("f", "nan")
        return ("f", v.hex())
    if isinstance(v, str):
        return ("s", v)
    if isinstance(v, (list, tuple)):
        return ("l", tuple(canon(x) for x in v))
    if isinstance(v, dict) or hasattr(v, "items"):
        return ("d", tuple(sorted((str(k), canon(x)) for k, x in v.items())))
    return ("?", repr(v))


def canon_fields(d):
    return tuple(sorted((k, canon(v)) for k, v in d.items()))


def short(v, n=200):
    s = repr(v)
    return s if len(s) <= n else s[:n] + "..."


# ---------------------------------------------------------------- bad values
# Values that cannot be turned into JSON and/or text.  Programs stay JSON: a bad
# value is a descriptor {"$bad": kind} that the interpreter materialises.

BAD_KINDS = ["str_raises", "repr_raises", "nonstr_key", "tuple_key", "big_int", "neg_big_int", "nan", "inf",
             "neg_inf", "bytes", "bad_bytes", "surrogate", "deep", "object", "set", "path", "date", "time",
             "complex", "circular", "str_subclass", "instance", "generator", "function", "exception", "type",
             "bytes_key", "nested_bad", "datetime", "uuid", "both_raise", "eq_raises", "hash_obj", "decimal",
             "lock_in_list", "gen_in_dict", "deep_2000", "uncopyable", "uncopyable_in_set", "tracked_iter",
             "tracked_iter_in_list", "file_in_list"]

# one-shot iterators handed to logging calls; the application must find them untouched afterwards
TRACKED = []


class TrackedIter(object):
    """An application-owned one-shot iterator that counts how often it was advanced."""

    def __init__(self):
        self.pulled = 0

    def __iter__(self):
        return self

    def __next__(self):
        self.pulled += 1
        if self.pulled > 3:
            raise StopIteration
        return self.pulled


class Uncopyable(object):
    def __deepcopy__(self, memo):
        raise TypeError("cannot be copied")

    def __reduce_ex__(self, proto):
        raise TypeError("cannot be pickled")

    def __hash__(self):
        return 7


class StrBomb(object):
    def __str__(self):
        raise ValueError("no str for you")


class ReprBomb(object):
    def __repr__(self):
        raise ValueError("no repr for you")


class BothBomb(object):
    def __str__(self):
        raise KeyError("no str")

    def __repr__(self):
        raise KeyError("no repr")


class Plain(object):
    def __init__(self):
        self.a = 1


class MyStr(str):
    pass


def _deep(n):
    v = 0
    for _ in range(n):
        v = [v]
    return v


def materialize(v):
    """Turn descriptors into the real (bad) objects, recursively."""
    if isinstance(v, dict):
        if "$bad" in v and len(v) == 1:
            return make_bad(v["$bad"])
        return {k: materialize(x) for k, x in v.items()}
    if isinstance(v, list):
        return [materialize(x) for x in v]
    return v


def make_bad(kind):
    import datetime
    import decimal
    import pathlib
    import uuid
    if kind == "str_raises":
        return StrBomb()
    if kind == "repr_raises":
        return ReprBomb()
    if kind == "both_raise":
        return BothBomb()
    if kind == "nonstr_key":
        return {1: "a", "b": 2}
    if kind == "tuple_key":
        return {(1, 2): 3}
    if kind == "bytes_key":
        return {b"k": 1}
    if kind == "big_int":
        return 2 ** 64
    if kind == "neg_big_int":
        return -(2 ** 63) - 1
    if kind == "nan":
        return float("nan")
    if kind == "inf":
        return float("inf")
    if kind == "neg_inf":
        return float("-inf")
    if kind == "bytes":
        return b"abc"
    if kind == "bad_bytes":
        return b"\xff\xfe"
    if kind == "surrogate":
        return "lone \ud800 surrogate"
    if kind == "deep":
        return _deep(300)
    if kind == "object":
        return object()
    if kind == "set":
        return {1, 2, 3}
    if kind == "path":
        return pathlib.Path("/tmp/x")
    if kind == "date":
        return datetime.date(2020, 1, 2)
    if kind == "time":
        return datetime.time(1, 2, 3)
    if kind == "datetime":
        return datetime.datetime(2020, 1, 2, 3, 4, 5)
    if kind == "uuid":
        return uuid.UUID(int=5)
    if kind == "decimal":
        return decimal.Decimal("1.5")
    if kind == "complex":
        return complex(1, 2)
    if kind == "circular":
        a = [1]
        a.append(a)
        return a
    if kind == "str_subclass":
        return MyStr("sub")
    if kind == "instance":
        return Plain()
    if kind == "generator":
        return (i for i in range(3))
    if kind == "function":
        return make_bad
    if kind == "exception":
        return ValueError("as a value")
    if kind == "type":
        return dict
    if kind == "nested_bad":
        return {"ok": [1, {"deep": StrBomb()}], "s": {1, 2}}
    if kind == "eq_raises":
        return [StrBomb(), ReprBomb()]
    if kind == "hash_obj":
        return {"k": object()}
    if kind == "lock_in_list":
        import threading
        return [threading.Lock(), 1]
    if kind == "gen_in_dict":
        return {"g": (i for i in range(3))}
    if kind == "deep_2000":
        return _deep(2000)
    if kind == "uncopyable":
        return Uncopyable()
    if kind == "uncopyable_in_set":
        return {Uncopyable()}
    if kind == "tracked_iter":
        t = TrackedIter()
        TRACKED.append(t)
        return t
    if kind == "tracked_iter_in_list":
        t = TrackedIter()
        TRACKED.append(t)
        return [t]
    if kind == "file_in_list":
        import io
        return [io.StringIO("x")]
    raise ValueError(kind)


def gen_bad(st, kinds=None):
    kinds = kinds or BAD_KINDS
    return {"$bad": kinds[st.choose(len(kinds), "badkind")]}


def gen_fields_bad(st, names, p_bad, maxn=4, exclude=(), kinds=None, vdepth=1):
    """Like gen_fields, but each value is bad with probability p_bad."""
    out = {}
    while len(out) < maxn and st.chance(0.55, "field?"):
        k = names[st.choose(len(names), "fname")]
        if k in exclude or k in out:
            continue
        if st.chance(p_bad, "bad?"):
            out[k] = gen_bad(st, kinds)
        else:
            out[k] = gen_json(st, 0, vdepth)
    return out
