"""Virtual-time asyncio event loop.

Real ``asyncio.Task``/``Future`` machinery, real FIFO ``call_soon`` order;
only the clock is simulated: when nothing is ready the clock jumps to the
next timer.  Only *legal* asyncio executions are produced.
"""

import asyncio
import heapq


class VirtualLoop(asyncio.BaseEventLoop):
    def __init__(self):
        super().__init__()
        self._vtime = 0.0
        self.iterations = 0

    def time(self):
        return self._vtime

    def _run_once(self):
        self.iterations += 1
        # jump the clock to the next timer when nothing is ready
        while self._scheduled and self._scheduled[0]._cancelled:
            h = heapq.heappop(self._scheduled)
            h._scheduled = False
        if not self._ready and self._scheduled:
            when = self._scheduled[0]._when
            if when > self._vtime:
                self._vtime = when
        # move due timers to ready (same (when, creation) order as asyncio)
        while self._scheduled and self._scheduled[0]._when <= self._vtime:
            h = heapq.heappop(self._scheduled)
            h._scheduled = False
            if not h._cancelled:
                self._ready.append(h)
        n = len(self._ready)
        for _ in range(n):
            h = self._ready.popleft()
            if not h._cancelled:
                h._run()
        if not self._ready and not self._scheduled and not self._stopping:
            # nothing can ever happen again: a hang, not a wait
            raise RuntimeError("virtual loop starved (deadlocked coroutine?)")

    def _process_events(self, event_list):
        pass

    def _write_to_self(self):
        pass

    def _make_self_pipe(self):
        pass

    def _close_self_pipe(self):
        pass


def run(coro_fn, *args):
    """Run ``coro_fn(*args)`` to completion on a fresh VirtualLoop."""
    loop = VirtualLoop()
    try:
        asyncio.set_event_loop(loop)
        return loop.run_until_complete(coro_fn(loop, *args)), loop
    finally:
        try:
            loop.close()
        finally:
            asyncio.set_event_loop(None)
