"""Program generator: a JSON tree of operations drawn from the ``prog`` stream.

0 is always the simplest answer (stop generating, plain ``with start_action``,
``log_message``, small values), so shrinking the stream shrinks the program.
"""

from . import values as V

ACTION_TYPES = ["app:a", "app:b", "app:sub.c", ""]
MESSAGE_TYPES = ["app:m", "app:n", ""]

# (api, style) pairs; index 0 is the plainest
ACT_STYLES = [
    ("plain", "with"),
    ("plain", "context"),
    ("plain", "run"),
    ("task", "with"),
    ("typed", "with"),
    ("typed_task", "with"),
    ("log_call", "call"),
    ("typed", "context"),
    ("task", "run"),
]
MSG_APIS = ["log_message", "action_log", "typed", "Message_log", "Message_new"]

DEFAULT_EXC = ["ValueError", "Exception", "KeyError", "OSError", "AppError", "AppSubError",
               "AppBase", "KeyboardInterrupt", "SystemExit", "GeneratorExit", "CancelledError",
               "ZeroDivisionError"]

TYPES = {
    "typed:A": {"kind": "action", "start": [["k0", "id"], ["k1", "wrap"]], "succ": [["k2", "tag"]]},
    "typed:B": {"kind": "action", "start": [], "succ": []},
    "typed:C": {"kind": "action", "start": [["x", "tag"]], "succ": [["y", "id"], ["items", "wrap"]]},
    "typed:M": {"kind": "message", "fields": [["k0", "id"], ["k1", "wrap"]]},
    "typed:N": {"kind": "message", "fields": []},
}
TYPED_ACTIONS = ["typed:A", "typed:B", "typed:C"]
TYPED_MESSAGES = ["typed:M", "typed:N"]


class Gen(object):
    def __init__(self, st, cfg):
        self.st = st
        self.cfg = cfg
        self.nid = 0
        self.sid = 0
        self.left = cfg.get("max_ops", 30)
        self.max_depth = cfg.get("max_depth", 5)
        self.vdepth = cfg.get("value_depth", 2)
        self.act_styles = cfg.get("act_styles", list(range(len(ACT_STYLES))))
        self.msg_apis = cfg.get("msg_apis", list(range(len(MSG_APIS))))
        self.exc = cfg.get("exc", DEFAULT_EXC)
        self.spawn_kinds = cfg.get("spawn_kinds", [])
        # weights: msg, act, tb, succ, raise, pause, spawn, reenter, plain_gen
        self.w = list(cfg.get("w_ops", [6, 6, 1, 2, 1, 0, 0])) + [0, 0, 0, 0, 0]
        self.w = self.w[:12]
        self.w[11] = cfg.get("w_handler", 0)
        self.w[10] = cfg.get("w_xreg", 0)
        self.w[7] = cfg.get("w_reenter", 0)
        self.w[8] = cfg.get("w_plain_gen", 0)
        self.w[9] = cfg.get("w_destop", 0)
        self.n_dests = 0
        self.p_more = cfg.get("p_more", 0.75)
        self.p_catch = cfg.get("p_catch", 0.5)
        self.world = cfg.get("world", "seq")
        self.used_types = {}

    def next_nid(self):
        self.nid += 1
        return self.nid

    def fields(self, names=V.FIELD_NAMES, exclude=()):
        pb = self.cfg.get("p_bad", 0)
        if pb:
            return V.gen_fields_bad(self.st, names, pb, 4, exclude=("nid",) + tuple(exclude),
                                    kinds=self.cfg.get("bad_kinds"), vdepth=max(1, self.vdepth))
        out = V.gen_fields(self.st, names, 4, self.vdepth, exclude=("nid",) + tuple(exclude))
        if self.cfg.get("reserved_names") and names is V.FIELD_NAMES and self.st.choose(8, "reserved") == 7:
            # a forwarded record that happens to carry one of eliot's own bookkeeping names
            k = ["timestamp", "task_level", "task_uuid"][self.st.choose(3, "which-reserved")]
            out[k] = ["2020-01-01T00:00:00", [9, 9], "someone-elses-uuid", 5][self.st.choose(4, "reserved-val")]
        return out

    def value(self):
        pb = self.cfg.get("p_bad", 0)
        if pb and self.st.chance(pb, "bad?"):
            return V.gen_bad(self.st, self.cfg.get("bad_kinds"))
        return V.gen_json(self.st, 0, self.vdepth)

    def body(self, depth, nopause=False, in_action=False):
        st = self.st
        ops = []
        while self.left > 0 and st.chance(self.p_more, "more-ops"):
            self.left -= 1
            w = list(self.w)
            if depth >= self.max_depth:
                w[1] = 0
                w[6] = 0
            if not in_action:
                w[3] = 0
                w[7] = 0
            if depth >= self.max_depth:
                w[7] = 0
                w[11] = 0
            if nopause and self.world == "async":
                w[5] = 0
                w[6] = 0
            k = st.weighted(w, "opkind")
            if k == 0:
                ops.append(self.msg())
            elif k == 1:
                ops.append(self.act(depth, nopause))
            elif k == 2:
                tb_classes = [c for c in self.exc if c != "CollideErr"]
                ops.append({"op": "tb", "nid": self.next_nid(), "cls": st.pick(tb_classes)})
            elif k == 3:
                ops.append({"op": "succ", "fields": self.fields(exclude=("result",))})
            elif k == 4:
                ops.append({"op": "raise", "cls": st.pick(self.exc), "text": "boom %d" % self.next_nid()})
                break
            elif k == 5:
                ops.append({"op": "pause", "d": st.choose(4, "delay")})
            elif k == 6:
                ops.append(self.spawn(depth))
            elif k == 7:
                how = "run" if st.choose(2, "rehow") else "context"
                rbody = self.body(depth + 1, nopause or how == "run", in_action=True)
                if self.world == "async" and how == "context" and not nopause:
                    # stay inside for at least one await, so that other tasks can enter/leave meanwhile
                    rbody.insert(st.choose(len(rbody) + 1, "pause-at"), {"op": "pause", "d": 0})
                # up: 0 = the current action, k = k-th enclosing one, 9 = the outermost (typically inherited
                # by every sibling task)
                ops.append({"op": "reenter", "how": how, "up": [0, 1, 2, 9, 9][st.choose(5, "up")],
                            "body": rbody})
            elif k == 8:
                ops.append({"op": "plain_gen", "nid": self.next_nid(),
                            "atype": st.pick(ACTION_TYPES, "atype"),
                            "how": ["close", "exhaust", "throw"][st.choose(3, "genhow")],
                            "inside": [self.plain_msg() for _ in range(st.choose(3))],
                            "suspended": [self.plain_msg() for _ in range(st.choose(3))],
                            "after": [self.plain_msg() for _ in range(st.choose(2))]})
            elif k == 11:
                # the ops of the body run inside an except block (error-handling code that logs, retries,
                # reports): the exception being handled there is none of theirs
                ops.append({"op": "handler", "cls": st.pick([c for c in self.exc if c not in ("StrRaises", "CollideErr")]),
                            "body": self.body(depth + 1, nopause, in_action=in_action)})
            elif k == 9:
                ops.append(self.destop())
            elif k == 10:
                xs = self.cfg.get("extractable", ["ValueError"])
                ops.append({"op": "xreg", "cls": xs[st.choose(len(xs), "xcls")],
                            "mode": "raise" if (st.choose(4, "xmode") == 3 and
                                                not self.cfg.get("xreg_fields_only")) else "fields"})
        return ops

    def destop(self):
        """Registration change between messages (C08/C12)."""
        st = self.st
        masks = self.cfg.get("masks", [["never"]])
        kind = st.choose(3, "destop")
        if kind == 0:
            n = 1 + st.choose(2, "n-add")
            specs = [{"mask": masks[st.choose(len(masks), "mask")], "exc": st.choose(6, "exc-kind")}
                     for _ in range(n)]
            return {"op": "destop", "add": specs}
        if kind == 1:
            return {"op": "destop", "remove": st.choose(6, "which")}
        return {"op": "destop", "globals": V.gen_fields(st, ["g0", "g1", "g2"], 2, 1)}

    def plain_msg(self):
        return {"op": "msg", "nid": self.next_nid(), "api": "log_message",
                "mtype": self.st.pick(MESSAGE_TYPES, "mtype"), "fields": self.fields()}

    def msg(self):
        st = self.st
        api = MSG_APIS[st.pick(self.msg_apis, "msgapi")]
        nid = self.next_nid()
        if api == "typed":
            mtype = st.pick(TYPED_MESSAGES, "mtype")
            self.used_types[mtype] = TYPES[mtype]
            f = {}
            for k, _s in TYPES[mtype]["fields"]:
                f[k] = self.value()
            f.update(self.fields(exclude=tuple(f)))
            op = {"op": "msg", "nid": nid, "api": api, "mtype": mtype, "fields": f}
            self.omit(op, f)
            return op
        mtype = st.pick(MESSAGE_TYPES, "mtype")
        return {"op": "msg", "nid": nid, "api": api, "mtype": mtype, "fields": self.fields()}

    def omit(self, op, f):
        """Fault: a declared field is not supplied (typed ops only)."""
        po = self.cfg.get("p_omit", 0)
        if po and f and self.st.chance(po, "omit?"):
            declared = [k for k in sorted(f) if k in ("k0", "k1", "x")]
            if declared:
                f.pop(declared[self.st.choose(len(declared))])
                op["omitted"] = True

    def act(self, depth, nopause=False):
        st = self.st
        api, style = ACT_STYLES[st.pick(self.act_styles, "actstyle")]
        nid = self.next_nid()
        op = {"op": "act", "nid": nid, "api": api if api != "plain" else "with", "style": style}
        inner_nopause = nopause or style in ("run", "call")
        if api in ("typed", "typed_task"):
            atype = st.pick(TYPED_ACTIONS, "atype")
            self.used_types[atype] = TYPES[atype]
            f = {}
            for k, _s in TYPES[atype]["start"]:
                f[k] = self.value()
            f.update(self.fields(exclude=tuple(f)))
            op["atype"] = atype
            op["start"] = f
            ts = {}
            for k, _s in TYPES[atype]["succ"]:
                ts[k] = self.value()
            op["tsucc"] = ts
            self.omit(op, f)
            if self.cfg.get("p_omit") and ts and st.chance(self.cfg["p_omit"], "omit-succ"):
                ts.pop(sorted(ts)[0])
        elif api == "log_call":
            op["atype"] = st.pick(ACTION_TYPES[:3], "atype")
            op["start"] = self.fields(names=V.IDENT_NAMES)
            op["include_result"] = not st.choose(3, "noresult") == 2
            op["result"] = self.value()
            if op["start"] and st.choose(4, "inclargs") == 3:
                names = sorted(op["start"])
                op["include_args"] = [n for n in names if st.choose(2)] + ["nid"]
        else:
            op["atype"] = st.pick(ACTION_TYPES, "atype")
            op["start"] = self.fields()
        op["body"] = self.body(depth + 1, inner_nopause, in_action=True)
        if self.cfg.get("wide") and not getattr(self, "_in_burst", False) and st.choose(6, "wide-body") == 5:
            # a batch action: 19-34 more direct children (messages and small child actions), so that
            # positions reach two digits and beyond
            burst = []
            left, self.left = self.left, 0
            self._in_burst = True
            for _ in range(19 + st.choose(16, "wide-n")):
                if st.choose(3, "wide-kind") == 2:
                    burst.append(self.act(self.max_depth, inner_nopause))
                else:
                    burst.append(self.plain_msg())
            self.left = left
            self._in_burst = False
            # (before a raise that ends the body, if there is one)
            if op["body"] and op["body"][-1].get("op") == "raise":
                op["body"][-1:-1] = burst
            else:
                op["body"].extend(burst)
        op["catch"] = st.chance(self.p_catch, "catch")
        if st.choose(6, "refinish") == 5:
            op["fin"] = 1 + st.choose(2)
        if self.cfg.get("mutate_exc") and st.choose(5, "mutate") == 4:
            op["mutate_on_pass"] = True
        if style == "context" and self.cfg.get("finish_inside") and st.choose(4, "fin-inside") == 3:
            op["finish_inside"] = True
        elif style == "context" and self.cfg.get("join_after_scope") and st.choose(3, "join-after") == 2:
            op["join_after_scope"] = True
        if style == "with" and self.cfg.get("foreign_finish") and st.choose(6, "foreign-finish") == 5:
            # somebody else (a supervisor thread, another Context) finishes the action just before its owner
            # leaves the with block; finish() is idempotent, the owner's exit then only restores its context
            op["foreign_finish"] = ["thread", "ctx"][st.choose(2, "ff-how")]
        return op

    def spawn(self, depth):
        st = self.st
        kind = st.pick(self.spawn_kinds, "spawnkind")
        self.sid += 1
        op = {"op": "spawn", "kind": kind, "sid": self.sid}
        if kind == "preserve":
            # where the preserved callable is invoked: a fresh thread, the very same thread while the
            # originating action is still current, or a thread running in a copy of the caller's context
            # (what asyncio.to_thread / run_in_executor wrappers do)
            hows = self.cfg.get("preserve_how", ["thread", "inline", "copyctx"])
            op["how"] = hows[st.choose(len(hows), "preserve-how")]
            if self.cfg.get("double_preserve") and op["how"] == "thread" and st.choose(4, "double") == 3:
                op["double"] = True
                op["bnid"] = self.next_nid()
        if kind == "remote":
            op["nid"] = self.next_nid()
            op["as_str"] = bool(st.choose(2, "as_str"))
            if st.choose(2, "ratype"):
                op["atype"] = st.pick(ACTION_TYPES[:3])
            op["start"] = self.fields()
            if self.cfg.get("late_remote") and st.choose(3, "late") == 2:
                op["late"] = True
        if kind == "task" and self.cfg.get("p_cancel", 0) and st.chance(self.cfg["p_cancel"], "cancel?"):
            op["cancel"] = st.choose(6, "cancel-at") * 0.0007
        op["body"] = self.body(depth + 1, False, in_action=False)
        return op


def generate(st, cfg):
    g = Gen(st, cfg)
    n_actors = cfg.get("n_actors", 1)
    actors = []
    for i in range(n_actors):
        if cfg.get("shared_root") and i == 0:
            # one long-lived action whose context is inherited by 2-3 sibling tasks (and used by the
            # parent as well): the typical "request action shared by sub-tasks" shape
            kids = []
            for _k in range(2 + st.choose(2, "n-siblings")):
                g.sid += 1
                own = {"op": "act", "nid": g.next_nid(), "api": "with", "style": "with", "atype": "app:own",
                       "start": {}, "catch": True, "body": g.body(3, False, in_action=True)}
                kids.append({"op": "spawn", "kind": "task", "sid": g.sid,
                             "body": [own] if st.choose(4, "own-action") else g.body(2, False, in_action=True)})
            pre = []
            if cfg.get("orphans"):
                # the parent creates actions that the sibling tasks enter (a dispatcher handing out job actions)
                for kid in kids:
                    if st.choose(2, "orphan"):
                        onid = g.next_nid()
                        pre.append({"op": "orphan_create", "nid": onid, "atype": "app:job"})
                        target = kid["body"][0]["body"] if kid["body"] and kid["body"][0].get("atype") == "app:own" \
                            else kid["body"]
                        target.insert(st.choose(len(target) + 1, "orphan-at"),
                                      {"op": "orphan_enter", "nid": onid, "body": g.body(3, False, in_action=True)})
            root = {"op": "act", "nid": g.next_nid(), "api": "with", "style": "with", "atype": "app:shared",
                    "start": {}, "catch": True, "body": pre + kids + g.body(1, False, in_action=True)}
            actors.append([root])
            continue
        ops = g.body(0)
        actors.append(ops)
    if not any(actors):
        # never an empty program: one plain message
        actors[0] = [{"op": "msg", "nid": g.next_nid(), "api": "log_message", "mtype": "app:m", "fields": {}}]
    return {"world": cfg.get("world", "seq"), "actors": actors, "types": g.used_types}


def count_ops(prog):
    n = 0
    depth = 0

    def walk(ops, d):
        nonlocal n, depth
        depth = max(depth, d)
        for op in ops:
            n += 1
            if "body" in op:
                walk(op["body"], d + 1)
    for a in prog["actors"]:
        walk(a, 0)
    return n, depth


def shape_hash(prog):
    """Hash of the program's shape (op kinds, apis, nesting), not its values."""
    import hashlib

    def sh(ops):
        return [(op["op"], op.get("api"), op.get("style"), op.get("kind"), op.get("cls"), op.get("how"),
                 bool(op.get("catch")), "cancel" in op, sh(op["body"]) if "body" in op else None) for op in ops]
    return hashlib.blake2b(repr([sh(a) for a in prog["actors"]]).encode(), digest_size=6).hexdigest()
