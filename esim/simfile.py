"""Simulated file: the ``file=`` argument of FileDestination *is* the seam.

Two byte strings per file:

* ``os_cache`` -- what survives the death of the process, and what a
  concurrent or post-mortem reader sees;
* ``user_buf`` -- written but not flushed: dies with the process.

A1 (assumption about the file object, not about eliot): one ``write`` call is
atomic with respect to other writers.

Faults (all drawn from the run's ``fault`` stream, all counted):

* ``io_error``: ``write``/``flush`` raises OSError(ENOSPC|EIO); a write may
  have accepted a prefix of the data before raising;
* eager write-back: a prefix of ``user_buf`` reaches ``os_cache`` at write
  time (what BufferedWriter does when its buffer fills / an unbuffered file);
* crash points: observers are told about the instants *inside* write (a
  prefix of the data persisted) and between write and flush.
"""

import errno
import io

from . import sched as _sched


class SimFile(object):
    def __init__(self, name="log", text=False, fault=None, p_io_error=0.0,
                 eager=False, stats=None):
        self.name = name
        self.text = text
        self.fault = fault
        self.p_io_error = p_io_error
        self.eager = eager
        self.os_cache = b""
        self.user_buf = b""
        self.calls = []         # ("write", bytes) / ("flush",) / ("write!", bytes_accepted, errno) ...
        self.dead = False       # after a crash: every call is discarded
        self.stats = stats if stats is not None else {}
        self.in_write = None    # data of the write call in progress (crash observers)
        self._closed = False
        self.invoked = []       # (stamp, raw) of every write call entered (oracle use)
        # ENOSPC, EIO, and the two that Python maps to BlockingIOError / InterruptedError
        self.errnos = [errno.ENOSPC, errno.EIO, errno.EAGAIN, errno.EINTR]
        self.can_seek = True
        self._pos = None        # None = at the end (append mode: every write goes to the end anyway)

    # -- helpers
    def _count(self, k):
        self.stats[k] = self.stats.get(k, 0) + 1

    def writable(self):
        return True

    def _yield(self, tag):
        s = _sched._CURRENT
        if s is not None:
            s.yield_point(tag)

    def _stamp(self):
        s = _sched._CURRENT
        return s.stamp() if s is not None else 0

    # -- file API
    def write(self, data):
        if self.text:
            if not isinstance(data, str):
                raise TypeError("write() argument must be str, not %s" % type(data).__name__)
            raw = data.encode("utf-8")
        else:
            if isinstance(data, str):
                raise TypeError("a bytes-like object is required, not 'str'")
            raw = bytes(data)
        if self._closed:
            raise ValueError("I/O operation on closed file.")
        if data == b"" or data == "":
            return 0            # FileDestination's mode probe
        if self.dead:
            return len(data)
        self.in_write = raw
        self.invoked.append((self._stamp(), raw))
        try:
            self._yield("file.write")           # crash point: inside write, nothing persisted yet
            if self.p_io_error and self.fault is not None and self.fault.chance(self.p_io_error, "io_error"):
                self._count("io_error_write")
                k = self.fault.choose(3, "partial")      # 0: nothing accepted, 1: prefix, 2: all but raise
                acc = b"" if k == 0 else (raw[: max(1, len(raw) // 2)] if k == 1 else raw)
                self.user_buf += acc
                en = self.errnos[self.fault.choose(len(self.errnos), "errno")]
                self.calls.append(("write!", raw, len(acc), en))
                raise OSError(en, "simulated write error")
            self.user_buf += raw
            self.calls.append(("write", raw))
            if self.eager and self.fault is not None:
                # a drawn prefix of the user buffer is written back right away
                n = self.fault.choose(len(self.user_buf) + 1, "writeback")
                if n:
                    self._count("eager_writeback")
                    self.os_cache += self.user_buf[:n]
                    self.user_buf = self.user_buf[n:]
        finally:
            self.in_write = None
        self._yield("file.write.done")           # crash point: between write and flush
        return len(data)

    def flush(self):
        if self._closed:
            raise ValueError("I/O operation on closed file.")
        if self.dead:
            return
        self._yield("file.flush")
        if self.p_io_error and self.fault is not None and self.fault.chance(self.p_io_error, "io_error"):
            self._count("io_error_flush")
            en = self.errnos[self.fault.choose(len(self.errnos), "errno")]
            self.calls.append(("flush!", en))
            raise OSError(en, "simulated flush error")
        self.os_cache += self.user_buf
        self.user_buf = b""
        self.calls.append(("flush",))
        self._yield("file.flush.done")

    def close(self):
        self._closed = True

    @property
    def closed(self):
        return self._closed

    # -- position (a regular file opened for appending; the unchanged library never asks)
    def seekable(self):
        return self.can_seek

    def tell(self):
        if self._pos is not None:
            return self._pos
        return len(self.os_cache) + len(self.user_buf)

    def seek(self, pos, whence=0):
        if not self.can_seek:
            raise io.UnsupportedOperation("seek")
        end = len(self.os_cache) + len(self.user_buf)
        if whence == 1:
            pos += self.tell()
        elif whence == 2:
            pos += end
        self._pos = None if pos >= end else max(0, pos)
        self._yield("file.seek")
        return self.tell()

    def truncate(self, size=None):
        """Cut the file at ``size`` (default: the current position): cached and unflushed bytes alike."""
        if not self.can_seek:
            raise io.UnsupportedOperation("truncate")
        if size is None:
            size = self.tell()
        self._count("truncate")
        self.calls.append(("truncate", size))
        n = len(self.os_cache)
        if size <= n:
            self.os_cache = self.os_cache[:size]
            self.user_buf = b""
        else:
            self.user_buf = self.user_buf[: size - n]
        self._pos = None
        self._yield("file.truncate")
        return size

    # -- observation
    def durable(self):
        """What a reader of the file sees right now (== after kill -9 now)."""
        return self.os_cache

    def lines(self):
        data = self.os_cache
        parts = data.split(b"\n")
        tail = parts.pop()
        return parts, tail


def make_simfile(base, *a, **kw):
    """SimFile that also is an instance of one of the io base classes (how a destination decides between
    text and binary must not depend on which abstract base a file object happens to derive from)."""
    if base in (None, "plain"):
        return SimFile(*a, **kw)
    bases = {"iobase": io.IOBase, "textiobase": io.TextIOBase, "bufferediobase": io.BufferedIOBase,
             "rawiobase": io.RawIOBase}
    cls = type("SimFile_" + base, (SimFile, bases[base]), {})
    return cls(*a, **kw)
