#!/venv/bin/python
"""Entry point of every registered check.

    check.py <Cnn> [--tier quick|thorough] [--runs N] [--workers W]
    check.py --replay <file> [--quiet]
    check.py --one <Cnn> <run_index>        (debug: run a single index verbosely)

Re-executes itself with PYTHONHASHSEED=0 so that set iteration order is not a
hidden source of nondeterminism.  Imports eliot from ELIOT_SRC (default /repo),
i.e. from the current working tree, on every invocation.
"""

import argparse
import json
import os
import sys

HERE = os.path.dirname(os.path.abspath(__file__))


def main():
    if os.environ.get("PYTHONHASHSEED") != "0":
        env = dict(os.environ)
        env["PYTHONHASHSEED"] = "0"
        env["PYTHONDONTWRITEBYTECODE"] = "1"
        os.execve(sys.executable, [sys.executable] + sys.argv, env)
    sys.dont_write_bytecode = True
    if HERE not in sys.path:
        sys.path.insert(0, HERE)
    os.chdir(HERE)
    ap = argparse.ArgumentParser()
    ap.add_argument("prop", nargs="?")
    ap.add_argument("index", nargs="?", type=int)
    ap.add_argument("--tier", default=os.environ.get("VERIF_TIER", "quick"))
    ap.add_argument("--runs", type=int, default=None)
    ap.add_argument("--workers", type=int, default=None)
    ap.add_argument("--replay")
    ap.add_argument("--quiet", action="store_true")
    ap.add_argument("--one", action="store_true")
    args = ap.parse_args()
    from esim import runner, seams
    from esim.sched import HarnessError
    verif_seed = int(os.environ.get("VERIF_SEED", "0") or 0)
    try:
        if args.replay:
            return runner.replay_file(args.replay, quiet=args.quiet)
        if not args.prop:
            ap.error("property id required")
        pid = args.prop.upper()
        if args.one:
            seams.import_eliot()
            mod = runner.load_prop(pid)
            if hasattr(mod, "prepare"):
                mod.prepare()
            seed = runner.run_seed(verif_seed, pid, args.index or 0)
            res = runner.execute(mod, seed)
            print(json.dumps({k: v for k, v in res.items() if k != "sample"}, indent=1, default=str)[:6000])
            print(json.dumps(res.get("sample"), default=str)[:6000])
            return 1 if res["violation"] else (2 if res["harness_error"] else 0)
        tier = args.tier if args.tier in ("quick", "thorough") else "quick"
        workers = args.workers or (int(os.environ["VERIF_WORKERS"]) if os.environ.get("VERIF_WORKERS") else None)
        runs = args.runs or (int(os.environ["VERIF_RUNS"]) if os.environ.get("VERIF_RUNS") else None)
        return runner.check(pid, tier, verif_seed, workers=workers, runs=runs)
    except HarnessError as e:
        print("HARNESS-ERROR: %s" % (e,))
        return 2


if __name__ == "__main__":
    _status = main()
    # leave without waiting for anything (pool manager threads, a stray child holding a pipe open): the
    # verdict is known, everything has been written
    sys.stdout.flush()
    sys.stderr.flush()
    os._exit(_status if isinstance(_status, int) else (0 if _status is None else 1))
